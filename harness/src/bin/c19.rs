//! C19 — inbound RTP demultiplexing and the rewrite bridge.
//!
//! Part 1 (demux): drives a real `RtpTransport` with registration operations and crafted RTP
//! packets (header extensions carrying RID / MID under the configured extension ids), with mpsc
//! listeners some of which are closed (receiver dropped); observes which listener channel received
//! each packet and `has_listener(ssrc)`; evaluates the direct property oracle on those observations
//! and emits the same operation lists as Gallina terms for `Model/Demux.v` (`Run/C19Run.v`).
//!
//! Part 2 (bridge): see `bridge` below.
use bytes::Bytes;
use rustrtc::rtp::RtpPacket;
use rustrtc::transports::ice::conn::IceConn;
use rustrtc::transports::ice::IceSocketWrapper;
use rustrtc::transports::rtp::RtpTransport;
use rustrtc::transports::PacketReceiver;
use serde_json::json;
use std::collections::{BTreeMap, BTreeSet, HashMap};
use std::net::SocketAddr;
use std::sync::Arc;
use tokio::sync::{mpsc, watch};
use vh::*;

// ================================================================================ part 2: bridge
/// Drives the rewrite bridge through the public API only: a source `RtpTransport` (no socket)
/// bridged with `bridge_rewrite_rules_to_with_video` / `bridge_rewrite_to` to target transports
/// whose ICE sockets are real loopback UDP sockets; every forwarded packet is read back from the
/// sink socket the target sends to, parsed byte by byte, and compared with `Model/Bridge.v`.
/// `initial_sequence_number` / `initial_timestamp_offset` are always set (nothing is random).
mod bridge {
    use super::*;
    use rustrtc::{RtpRewriteBridgeOptions, RtpRewriteBridgeParams, RtpRewriteRule};
    use std::collections::HashSet;
    use tokio::net::UdpSocket;

    #[derive(Clone, Debug)]
    pub struct Rule {
        pub m_pt: Option<u8>,
        pub fixed: Option<u32>,
        pub off: u32,
        pub out_pt: Option<u8>,
        pub mid_id: Option<u8>,
        pub mid: Option<String>,
    }
    #[derive(Clone, Debug)]
    pub struct Cfg {
        pub strip: bool,
        pub init_seq: u16,
        pub init_off: u32,
        pub init_out_ts: Option<u32>,
        pub rules: Vec<Rule>,
        pub video_pts: Vec<u8>,
        pub has_video: bool,
        /// Some = install through the legacy `bridge_rewrite_to(params)`; `rules` then holds what
        /// `RtpRewriteRule::from_params` is documented to produce (catch-all + DTMF rule)
        pub legacy: Option<(u32, Option<u32>, Option<u8>, Option<(u8, u8)>)>,
    }
    #[derive(Clone, Debug)]
    pub struct In {
        pub ssrc: u32,
        pub pt: u8,
        pub seq: u16,
        pub ts: u32,
        pub marker: bool,
        pub ext: Option<Ext>,
        /// a raw (possibly malformed) extension block instead of `ext`
        pub raw: Option<(u16, Vec<u8>)>,
    }
    impl In {
        pub fn block(&self) -> Option<(u16, Vec<u8>)> { self.raw.clone().or_else(|| ext_block(&self.ext)) }
    }
    /// SRTP situation of a target transport
    #[derive(Clone, Copy, Debug, PartialEq)]
    pub enum TMode { Plain, Srtp, NeedSrtp }
    #[derive(Clone, Debug)]
    pub enum BOp {
        Set(Cfg),
        Clear,
        StartSrtp(bool),
        /// arriving packet; `false` = it is made to fail the source's SRTP unprotect (corrupted
        /// authentication tag) or, on a plain source, the RTP parser (version 1)
        Pkt(In, bool),
    }
    #[derive(Clone, Debug)]
    pub struct Scen {
        pub src_srtp: bool,
        pub main: TMode,
        pub video: TMode,
        pub ops: Vec<BOp>,
    }
    #[derive(Clone, Debug, PartialEq)]
    pub struct Out {
        pub video: bool,
        pub ssrc: u32,
        pub pt: u8,
        pub seq: u16,
        pub ts: u32,
        pub marker: bool,
        pub ext: Option<(u16, Vec<u8>)>,
        pub payload_ok: bool,
    }
    /// what was seen for one arriving packet
    #[derive(Clone, Debug, PartialEq)]
    pub enum Seen { Fwd(Out), Listener, Nothing, Garbage(String) }

    fn parse_wire(video: bool, d: &[u8], payload: &[u8]) -> Option<Out> {
        if d.len() < 12 || d[0] >> 6 != 2 || d[0] & 0x2f != 0 {
            return None;
        }
        let mut off = 12;
        let ext = if d[0] & 0x10 != 0 {
            if d.len() < off + 4 { return None; }
            let prof = u16::from_be_bytes([d[off], d[off + 1]]);
            let n = u16::from_be_bytes([d[off + 2], d[off + 3]]) as usize * 4;
            off += 4;
            if d.len() < off + n { return None; }
            let b = d[off..off + n].to_vec();
            off += n;
            Some((prof, b))
        } else {
            None
        };
        Some(Out {
            video,
            ssrc: u32::from_be_bytes([d[8], d[9], d[10], d[11]]),
            pt: d[1] & 0x7f,
            seq: u16::from_be_bytes([d[2], d[3]]),
            ts: u32::from_be_bytes([d[4], d[5], d[6], d[7]]),
            marker: d[1] & 0x80 != 0,
            ext,
            payload_ok: &d[off..] == payload,
        })
    }

    /// first one-byte element with this id (oracle side, well-formed blocks only)
    fn find_one_byte(b: &[u8], id: u8) -> Option<Vec<u8>> {
        let mut i = 0;
        while i < b.len() {
            if b[i] == 0 { i += 1; continue; }
            let eid = b[i] >> 4;
            let len = (b[i] & 0x0f) as usize + 1;
            i += 1;
            if eid == 15 || i + len > b.len() { return None; }
            if eid == id { return Some(b[i..i + len].to_vec()); }
            i += len;
        }
        None
    }

    pub const K_IN: ([u8; 16], [u8; 14]) = ([1, 2, 3, 4, 5, 6, 7, 8, 9, 10, 11, 12, 13, 14, 15, 16], [21, 22, 23, 24, 25, 26, 27, 28, 29, 30, 31, 32, 33, 34]);
    pub const K_MAIN: ([u8; 16], [u8; 14]) = ([41; 16], [42; 14]);
    pub const K_VIDEO: ([u8; 16], [u8; 14]) = ([51; 16], [52; 14]);
    fn km(k: &([u8; 16], [u8; 14])) -> rustrtc::SrtpKeyingMaterial { rustrtc::SrtpKeyingMaterial::new(k.0.to_vec(), k.1.to_vec()) }
    fn wctx(k: &([u8; 16], [u8; 14])) -> webrtc_srtp::context::Context {
        webrtc_srtp::context::Context::new(&k.0, &k.1, webrtc_srtp::protection_profile::ProtectionProfile::Aes128CmHmacSha1_80, None, None).unwrap()
    }

    /// loopback sockets: the targets send from `dst_*` (tokio sockets inside IceConn) to the sinks
    /// (plain non-blocking std sockets: a loopback datagram is queued during the sender's sendto)
    pub struct Net {
        sink_main: std::net::UdpSocket,
        sink_video: std::net::UdpSocket,
        dst_main: Arc<UdpSocket>,
        dst_video: Arc<UdpSocket>,
    }

    impl Net {
        pub async fn new() -> Net {
            let n = Net {
                sink_main: std::net::UdpSocket::bind("127.0.0.1:0").unwrap(),
                sink_video: std::net::UdpSocket::bind("127.0.0.1:0").unwrap(),
                dst_main: Arc::new(UdpSocket::bind("127.0.0.1:0").await.unwrap()),
                dst_video: Arc::new(UdpSocket::bind("127.0.0.1:0").await.unwrap()),
            };
            n.sink_main.set_nonblocking(true).unwrap();
            n.sink_video.set_nonblocking(true).unwrap();
            n.dst_main.writable().await.unwrap();
            n.dst_video.writable().await.unwrap();
            n
        }
        /// every datagram waiting at the sinks: (video?, bytes)
        fn drain(&self) -> Vec<(bool, Vec<u8>)> {
            let mut v = vec![];
            let mut b = [0u8; 2048];
            for attempt in 0..2 {
                while let Ok((n, _)) = self.sink_main.recv_from(&mut b) { v.push((false, b[..n].to_vec())); }
                while let Ok((n, _)) = self.sink_video.recv_from(&mut b) { v.push((true, b[..n].to_vec())); }
                if !v.is_empty() || attempt == 1 { break; }
                std::thread::sleep(std::time::Duration::from_micros(300));
            }
            v
        }
    }

    fn opt<T: std::fmt::Display>(o: &Option<T>) -> String {
        match o { Some(v) => format!("(Some {})", v), None => "None".into() }
    }
    fn rule_term(r: &Rule) -> String {
        format!("mkRule {} {} {} {} {} {}", opt(&r.m_pt), opt(&r.fixed), r.off, opt(&r.out_pt), opt(&r.mid_id),
            opt_term(r.mid.as_ref().map(|m| bytes_term(m.as_bytes()))))
    }
    fn cfg_term(c: &Cfg) -> String {
        format!("mkBridge (mkOpts {} (Some {}) (Some {}) {}) {} {} {} []", bool_term(c.strip), c.init_seq, c.init_off, opt(&c.init_out_ts),
            list_term(&c.rules.iter().map(rule_term).collect::<Vec<_>>()), bytes_term(&c.video_pts), bool_term(c.has_video))
    }
    fn in_term(i: &In) -> String {
        format!("mkBin (mkBPkt {} {} {} {} {} {}) 0 0", i.ssrc, i.pt, i.seq, i.ts, bool_term(i.marker), block_term(&i.block()))
    }
    fn mode_term(m: TMode) -> &'static str { match m { TMode::Plain => "TPlain", TMode::Srtp => "TSrtp", TMode::NeedSrtp => "TNeedSrtp" } }
    fn bop_term(o: &BOp) -> String {
        match o {
            BOp::Set(c) => format!("BSet ({})", cfg_term(c)),
            BOp::Clear => "BClear".into(),
            BOp::StartSrtp(v) => format!("BStartSrtp {}", bool_term(*v)),
            BOp::Pkt(i, a) => format!("BPkt ({}) {}", in_term(i), bool_term(*a)),
        }
    }
    fn seen_term(o: &Seen) -> String {
        match o {
            Seen::Fwd(o) => format!("WFwd {} (mkBPkt {} {} {} {} {} {})", bool_term(o.video), o.ssrc, o.pt, o.seq, o.ts, bool_term(o.marker), block_term(&o.ext)),
            Seen::Listener => "WListener".into(),
            Seen::Nothing => "WNone".into(),
            // something arrived that is not what any model outcome looks like: make the comparison fail
            Seen::Garbage(_) => "WFwd false (mkBPkt (-1) 0 0 0 false None)".into(),
        }
    }

    fn install(src: &RtpTransport, main: &Arc<RtpTransport>, video: &Arc<RtpTransport>, c: &Cfg) {
        if let Some((off, fixed, pt, dtmf)) = c.legacy {
            src.bridge_rewrite_to(main.clone(), RtpRewriteBridgeParams {
                ssrc_offset: off, fixed_out_ssrc: fixed, payload_type: pt, dtmf_payload_type: dtmf,
                initial_sequence_number: Some(c.init_seq), initial_timestamp_offset: Some(c.init_off), strip_extensions: c.strip });
        } else {
            let rules: Vec<RtpRewriteRule> = c.rules.iter().map(|r| RtpRewriteRule {
                match_payload_type: r.m_pt, fixed_out_ssrc: r.fixed, ssrc_offset: r.off, out_payload_type: r.out_pt,
                sdes_mid_extension_id: r.mid_id, sdes_mid: r.mid.clone() }).collect();
            let opts = RtpRewriteBridgeOptions { strip_extensions: c.strip, initial_sequence_number: Some(c.init_seq),
                initial_timestamp_offset: Some(c.init_off), initial_output_timestamp: c.init_out_ts };
            src.bridge_rewrite_rules_to_with_video(main.clone(), if c.has_video { Some(video.clone()) } else { None },
                c.video_pts.iter().copied().collect::<HashSet<u8>>(), opts, rules);
        }
    }

    /// payload of the k-th arriving packet
    fn payload_of(k: usize) -> [u8; 7] { [k as u8, 0xAB, (k >> 8) as u8, 0xCD, 1, 2, 3] }

    async fn run_impl(net: &Net, sc: &Scen) -> (Vec<Seen>, Option<String>) {
        use futures::FutureExt;
        use std::panic::AssertUnwindSafe as Aus;
        let mut panicked: Option<String> = None;
        net.drain();
        let prof = rustrtc::SrtpProfile::Aes128Sha1_80;
        let (_tx0, rx0) = watch::channel(None::<IceSocketWrapper>);
        let src = RtpTransport::new(IceConn::new(rx0, "127.0.0.1:9".parse().unwrap(), None), false);
        if sc.src_srtp {
            // the source decrypts with K_IN (its own sending key is irrelevant here)
            src.start_srtp(rustrtc::SrtpSession::new(prof, km(&K_MAIN), km(&K_IN)).unwrap());
        }
        let (ltx, mut lrx) = mpsc::channel::<(RtpPacket, SocketAddr)>(64);
        src.register_provisional_listener(ltx);
        let (_tx1, rx1) = watch::channel(Some(IceSocketWrapper::Udp(net.dst_main.clone())));
        let main = Arc::new(RtpTransport::new(IceConn::new(rx1, net.sink_main.local_addr().unwrap(), None), sc.main == TMode::NeedSrtp));
        let (_tx2, rx2) = watch::channel(Some(IceSocketWrapper::Udp(net.dst_video.clone())));
        let video = Arc::new(RtpTransport::new(IceConn::new(rx2, net.sink_video.local_addr().unwrap(), None), sc.video == TMode::NeedSrtp));
        if sc.main == TMode::Srtp { main.start_srtp(rustrtc::SrtpSession::new(prof, km(&K_MAIN), km(&K_IN)).unwrap()); }
        if sc.video == TMode::Srtp { video.start_srtp(rustrtc::SrtpSession::new(prof, km(&K_VIDEO), km(&K_IN)).unwrap()); }
        let mut modes = (sc.main, sc.video);
        // reference SRTP contexts: the sender feeding the source, the receivers behind the targets
        let mut w_in = wctx(&K_IN);
        let mut w_main = wctx(&K_MAIN);
        let mut w_video = wctx(&K_VIDEO);
        let from: SocketAddr = "127.0.0.1:5000".parse().unwrap();
        let mut buf = Vec::with_capacity(1500);
        let mut seen = vec![];
        let mut k = 0usize;
        for op in &sc.ops {
            match op {
                BOp::Set(c) => {
                    if let Err(m) = catch(Aus(|| install(&src, &main, &video, c))) { panicked.get_or_insert(format!("installing the bridge panicked: {}", m)); }
                }
                BOp::Clear => {
                    if let Err(m) = catch(Aus(|| src.clear_bridge_rewrite())) { panicked.get_or_insert(format!("clear_bridge_rewrite panicked: {}", m)); }
                }
                BOp::StartSrtp(v) => {
                    let (t, key) = if *v { (&video, &K_VIDEO) } else { (&main, &K_MAIN) };
                    if let Err(m) = catch(Aus(|| t.start_srtp(rustrtc::SrtpSession::new(prof, km(key), km(&K_IN)).unwrap()))) {
                        panicked.get_or_insert(format!("start_srtp panicked: {}", m));
                    }
                    if *v { modes.1 = TMode::Srtp; w_video = wctx(&K_VIDEO); } else { modes.0 = TMode::Srtp; w_main = wctx(&K_MAIN); }
                }
                BOp::Pkt(i, auth) => {
                    let payload = payload_of(k);
                    k += 1;
                    let mut wire = build_rtp_raw(i.ssrc, i.pt, i.seq, i.ts, i.marker, &i.block(), &payload);
                    if sc.src_srtp {
                        wire = match catch(Aus(|| w_in.encrypt_rtp(&wire).map(|b| b.to_vec()).map_err(|e| e.to_string()))) {
                            Ok(Ok(b)) => b,
                            Ok(Err(e)) | Err(e) => { seen.push(Seen::Garbage(format!("reference SRTP sender refused the input: {}", e))); continue; }
                        };
                        if !*auth { let n = wire.len(); wire[n - 1] ^= 0x5a; }
                    } else if !*auth {
                        wire[0] = (wire[0] & 0x3f) | 0x40;      // RTP version 1: does not parse
                    }
                    if let Err(e) = Aus(src.receive(Bytes::from(wire), from, &mut buf)).catch_unwind().await {
                        panicked.get_or_insert(format!("packet {}: receive (rewrite bridge) panicked: {}", k - 1, panic_msg(e)));
                    }
                    let got = net.drain();
                    let at_listener = lrx.try_recv().ok();
                    seen.push(if got.len() > 1 || (got.len() == 1 && at_listener.is_some()) {
                        Seen::Garbage(format!("{} datagrams forwarded and listener delivery {} for one arriving packet", got.len(), at_listener.is_some()))
                    } else if let Some((v, d)) = got.into_iter().next() {
                        let mode = if v { modes.1 } else { modes.0 };
                        let plain = if mode == TMode::Srtp {
                            // reference unprotect on the target's peer socket
                            let w = if v { &mut w_video } else { &mut w_main };
                            match catch(Aus(|| w.decrypt_rtp(&d).map(|b| b.to_vec()).map_err(|e| e.to_string()))) {
                                Ok(Ok(b)) => Some(b),
                                Ok(Err(e)) | Err(e) => { seen.push(Seen::Garbage(format!("reference SRTP receiver refused the forwarded packet: {}", e))); continue; }
                            }
                        } else { Some(d) };
                        match plain.and_then(|pl| parse_wire(v, &pl, &payload)) { Some(o) => Seen::Fwd(o), None => Seen::Garbage("forwarded datagram is not RTP".into()) }
                    } else if let Some((pk, _)) = at_listener {
                        if pk.header.ssrc == i.ssrc && pk.header.sequence_number == i.seq && pk.header.timestamp == i.ts { Seen::Listener }
                        else { Seen::Garbage("the listener got a packet that is not the one sent".into()) }
                    } else { Seen::Nothing });
                }
            }
        }
        (seen, panicked)
    }

    // -------------------------------------------------------------------------- direct oracle
    // From the property text, on the implementation's own output sequence: per source SSRC one
    // constant output SSRC; payload type = the matched rule's; sequence numbers consecutive in
    // arrival order (mod 2^16) starting at the configured seed; timestamps keep the source
    // difference between consecutive arrivals unless the arrival is a forward jump beyond 900000
    // ticks from the newest (non-backward) earlier arrival, where the output advances by exactly
    // 3000 from that arrival's output; all of it per source, whatever is interleaved.  A packet that
    // fails authentication is never forwarded and disturbs nothing; without a bridge nothing is
    // forwarded; a target that requires SRTP and has no session forwards nothing in clear.
    fn oracle(sc: &Scen, seen: &[Seen]) -> Option<String> {
        struct S { out_ssrc: u32, next_seq: u16, prev_in: u32, prev_out: u32, anchor_in: u32, anchor_out: u32, ts_known: bool }
        let mut st: HashMap<u32, S> = HashMap::new();
        let mut swallowed: BTreeSet<u32> = BTreeSet::new();   // sources with packets dropped at an SRTP-less target since the install
        let mut cfg: Option<&Cfg> = None;
        let mut modes = (sc.main, sc.video);
        let mut k = 0usize;
        for op in &sc.ops {
            let (i, auth) = match op {
                BOp::Set(c) => { cfg = Some(c); st.clear(); swallowed.clear(); continue; }
                BOp::Clear => { cfg = None; st.clear(); swallowed.clear(); continue; }
                BOp::StartSrtp(v) => { if *v { modes.1 = TMode::Srtp } else { modes.0 = TMode::Srtp }; continue; }
                BOp::Pkt(i, a) => (i, *a),
            };
            let o = &seen[k];
            k += 1;
            if let Seen::Garbage(m) = o { return Some(format!("packet {}: {}", k - 1, m)); }
            if !auth {
                if *o != Seen::Nothing { return Some(format!("packet {}: failed authentication / parsing but was not dropped: {:?}", k - 1, o)); }
                continue;
            }
            let Some(c) = cfg else {
                if *o != Seen::Listener { return Some(format!("packet {}: no bridge installed, the packet belongs to the listeners, saw {:?}", k - 1, o)); }
                continue;
            };
            let want_video = c.has_video && c.video_pts.contains(&i.pt);
            let mode = if want_video { modes.1 } else { modes.0 };
            if mode == TMode::NeedSrtp {
                if *o != Seen::Nothing { return Some(format!("packet {}: the target requires SRTP and has no session, yet something was forwarded / delivered: {:?}", k - 1, o)); }
                swallowed.insert(i.ssrc);
                st.remove(&i.ssrc);
                continue;
            }
            let Seen::Fwd(o) = o else { return Some(format!("packet {}: nothing was forwarded ({:?})", k - 1, o)); };
            if !o.payload_ok { return Some(format!("packet {}: payload altered", k - 1)); }
            if o.video != want_video { return Some(format!("packet {}: forwarded to the {} target", k - 1, if o.video { "video" } else { "main" })); }
            let rule = c.rules.iter().find(|r| r.m_pt == Some(i.pt)).or_else(|| c.rules.iter().find(|r| r.m_pt.is_none()));
            let want_pt = rule.and_then(|r| r.out_pt).unwrap_or(i.pt) & 0x7f;
            if o.pt != want_pt { return Some(format!("packet {}: payload type {} but the matched rule says {}", k - 1, o.pt, want_pt)); }
            match st.get_mut(&i.ssrc) {
                None => {
                    if !swallowed.contains(&i.ssrc) {
                        let want_ssrc = match rule { Some(r) => r.fixed.unwrap_or(i.ssrc.wrapping_add(r.off)), None => i.ssrc };
                        if o.ssrc != want_ssrc { return Some(format!("packet {}: first output SSRC {} but the rule gives {}", k - 1, o.ssrc, want_ssrc)); }
                        if o.seq != c.init_seq { return Some(format!("packet {}: first sequence number {} is not the configured {}", k - 1, o.seq, c.init_seq)); }
                        let want_ts = c.init_out_ts.unwrap_or(i.ts.wrapping_add(c.init_off));
                        if o.ts != want_ts { return Some(format!("packet {}: first timestamp {} expected {}", k - 1, o.ts, want_ts)); }
                    }
                    st.insert(i.ssrc, S { out_ssrc: o.ssrc, next_seq: o.seq.wrapping_add(1), prev_in: i.ts, prev_out: o.ts, anchor_in: i.ts, anchor_out: o.ts,
                        ts_known: !swallowed.contains(&i.ssrc) });
                }
                Some(s) => {
                    if o.ssrc != s.out_ssrc { return Some(format!("packet {}: output SSRC changed from {} to {} within source {}", k - 1, s.out_ssrc, o.ssrc, i.ssrc)); }
                    if o.seq != s.next_seq { return Some(format!("packet {}: sequence number {} is not consecutive (expected {})", k - 1, o.seq, s.next_seq)); }
                    s.next_seq = s.next_seq.wrapping_add(1);
                    if s.ts_known {
                        let d = i.ts.wrapping_sub(s.anchor_in);
                        if d < 0x8000_0000 && d > 900_000 {
                            if o.ts != s.anchor_out.wrapping_add(3000) {
                                return Some(format!("packet {}: discontinuity (+{} ticks) must advance the output by 3000 from {}, got {}", k - 1, d, s.anchor_out, o.ts));
                            }
                        } else if o.ts.wrapping_sub(s.prev_out) != i.ts.wrapping_sub(s.prev_in) {
                            return Some(format!("packet {}: output timestamp difference {} differs from source difference {}", k - 1,
                                o.ts.wrapping_sub(s.prev_out), i.ts.wrapping_sub(s.prev_in)));
                        }
                        if d < 0x8000_0000 { s.anchor_in = i.ts; s.anchor_out = o.ts; }
                    }
                    s.prev_in = i.ts;
                    s.prev_out = o.ts;
                }
            }
            // extensions: stripped, or MID stamped for the matched rule
            if c.strip {
                if o.ext.is_some() { return Some(format!("packet {}: extensions not stripped", k - 1)); }
            } else if let Some(r) = rule {
                if let (Some(id), Some(mid)) = (r.mid_id, &r.mid) {
                    let legal = (1..15).contains(&id) && (1..=16).contains(&mid.len());
                    let bede = i.raw.is_none() && i.ext.as_ref().map(|e| !e.two_byte).unwrap_or(true);
                    if legal && bede {
                        let got = o.ext.as_ref().filter(|(p, _)| *p == 0xBEDE).and_then(|(_, b)| find_one_byte(b, id));
                        if got.as_deref() != Some(mid.as_bytes()) { return Some(format!("packet {}: MID extension {} not stamped with {:?}", k - 1, id, mid)); }
                    }
                }
            }
        }
        None
    }

    // -------------------------------------------------------------------------- generators
    fn gen_cfg(r: &mut Rng) -> Cfg {
        let strip = r.chance(1, 6);
        let init_seq = *r.pick(&[0u16, 1, 100, 32000, 65533, 65534, 65535]);
        let init_off = *r.pick(&[0u32, 12345, 0x7FFF_FFFF, 0x8000_0000, 0xFFFF_F000, 0xFFFF_FFFF]);
        let init_out_ts = if r.chance(1, 4) { Some(*r.pick(&[0u32, 50_000, 0xFFFF_FF00])) } else { None };
        if r.chance(1, 5) {
            let off = *r.pick(&[0u32, 900, 0xFFFF_FFFF]);
            let fixed = if r.chance(1, 2) { Some(*r.pick(&[0xABCDu32, 7])) } else { None };
            let pt = if r.chance(2, 3) { Some(*r.pick(&[96u8, 0, 8])) } else { None };
            let dtmf = if r.chance(1, 2) { Some((101u8, *r.pick(&[110u8, 101]))) } else { None };
            let mut rules = vec![Rule { m_pt: None, fixed, off, out_pt: pt, mid_id: None, mid: None }];
            if let Some((s, d)) = dtmf { rules.push(Rule { m_pt: Some(s), fixed, off, out_pt: Some(d), mid_id: None, mid: None }); }
            return Cfg { strip, init_seq, init_off, init_out_ts: None, rules, video_pts: vec![], has_video: false, legacy: Some((off, fixed, pt, dtmf)) };
        }
        let nrules = r.range(0, 4);
        let mut rules = vec![];
        for _ in 0..nrules {
            let m_pt = if r.chance(1, 3) { None } else { Some(*r.pick(&[0u8, 98, 99, 101, 127])) };
            let fixed = if r.chance(1, 2) { Some(*r.pick(&[111u32, 222, 0xFFFF_FFFF])) } else { None };
            let off = *r.pick(&[0u32, 900, 0xFFFF_FFFF, 0x8000_0000]);
            let out_pt = if r.chance(2, 3) { Some(*r.pick(&[96u8, 102, 110, 127, 0])) } else { None };
            let (mid_id, mid) = match r.below(6) {
                0 => (Some(*r.pick(&[1u8, 3, 14])), Some(r.pick(&["0", "1", "audio", "0123456789abcdef"]).to_string())),
                1 => (Some(*r.pick(&[0u8, 15, 200])), Some("0".to_string())),          // illegal id: ignored
                2 => (Some(3u8), Some(r.pick(&["", "0123456789abcdefg"]).to_string())), // illegal length: ignored
                3 => (Some(3u8), None),
                _ => (None, None),
            };
            rules.push(Rule { m_pt, fixed, off, out_pt, mid_id, mid });
        }
        let video_pts: Vec<u8> = if r.chance(1, 2) { vec![98, 99] } else { vec![] };
        let has_video = r.chance(1, 2);
        Cfg { strip, init_seq, init_off, init_out_ts, rules, video_pts, has_video, legacy: None }
    }

    fn gen_ins(r: &mut Rng, n: usize, stats: &mut BTreeMap<String, u64>) -> Vec<In> {
        let nsrc = r.range(1, 3) as usize;
        let ssrcs: Vec<u32> = (0..nsrc).map(|k| r.pick(&[1u32, 100, 0xFFFF_FFFF, 0x8000_0000, 4242]).wrapping_add(k as u32 * 7)).collect();
        let mut ts: Vec<u32> = (0..nsrc).map(|_| *r.pick(&[0u32, 1000, 0xFFFF_FF00, 0x7FFF_FFF0, 900_000])).collect();
        let mut out = vec![];
        for _ in 0..n {
            let s = r.below(nsrc as u64) as usize;
            // timestamp steps aimed at the branch boundaries of rewrite_packet
            let (name, step): (&str, u32) = match r.below(16) {
                0..=4 => ("ts+160", 160),
                5 => ("ts+0", 0),
                6 => ("ts+900000", 900_000),
                7 => ("ts+900001", 900_001),
                8 => ("ts+899999", 899_999),
                9 => ("ts+2^31-1", 0x7FFF_FFFF),
                10 => ("ts+2^31", 0x8000_0000),
                11 => ("ts+2^31+1", 0x8000_0001),
                12 => ("ts-160", 0u32.wrapping_sub(160)),
                13 => ("ts-1", 0xFFFF_FFFF),
                14 => ("ts-900001", 0u32.wrapping_sub(900_001)),
                _ => ("ts+random", r.next() as u32),
            };
            *stats.entry(name.into()).or_default() += 1;
            ts[s] = ts[s].wrapping_add(step);
            let ext = match r.below(6) {
                0 | 1 | 2 => None,
                3 => Some(Ext { two_byte: false, elems: vec![] }),
                4 => {
                    let n = r.range(1, 3);
                    let mut elems = vec![];
                    for _ in 0..n {
                        let id = *r.pick(&[1u8, 2, 3, 14]);
                        let len = r.range(1, 5) as usize;
                        elems.push((id, r.bytes(len)));
                    }
                    Some(Ext { two_byte: false, elems })
                }
                _ => {
                    let id = *r.pick(&[1u8, 3, 200]);
                    let len = r.range(0, 4) as usize;
                    Some(Ext { two_byte: true, elems: vec![(id, r.bytes(len))] })
                }
            };
            let raw = if r.chance(1, 10) { Some(gen_raw_block(r, &[1, 3, 14])) } else { None };
            out.push(In { ssrc: ssrcs[s], pt: *r.pick(&[0u8, 0, 98, 99, 101, 127, 8]), seq: r.next() as u16, ts: ts[s], marker: r.chance(1, 5), ext, raw });
        }
        out
    }

    fn corpus() -> Vec<(Cfg, Vec<In>)> {
        let p = |ssrc: u32, pt: u8, ts: u32| In { ssrc, pt, seq: 7, ts, marker: false, ext: None, raw: None };
        let base = Cfg { strip: false, init_seq: 65535, init_off: 0xFFFF_FED8, init_out_ts: None,
            rules: vec![Rule { m_pt: None, fixed: Some(111), off: 0, out_pt: Some(96), mid_id: None, mid: None },
                        Rule { m_pt: Some(98), fixed: Some(222), off: 0, out_pt: Some(102), mid_id: Some(3), mid: Some("1".into()) }],
            video_pts: vec![98], has_video: true, legacy: None };
        vec![
            // the Example of Proofs/BridgeProofs.v: interleaving, sequence wrap, +900001 re-base, +900000 and backward kept
            (base.clone(), vec![p(1, 0, 1000), p(2, 98, 50), p(1, 0, 901_000), p(1, 0, 900_000), p(2, 98, 900_051), p(1, 0, 1_801_001)]),
            // backward packet, then a jump measured from the anchor (not from the backward packet)
            (base.clone(), vec![p(1, 0, 1000), p(1, 0, 500), p(1, 0, 901_001), p(1, 0, 901_161)]),
            // pinned first output timestamp + marker; unit test values
            (Cfg { init_seq: 100, init_off: 999_999, init_out_ts: Some(50_000), rules: vec![Rule { m_pt: None, fixed: Some(0xABCD), off: 0, out_pt: None, mid_id: None, mid: None }],
                   video_pts: vec![], has_video: false, ..base.clone() }, vec![p(1, 0, 10_000), p(1, 0, 10_160)]),
            // no matching rule: SSRC and PT pass through, still re-sequenced
            (Cfg { rules: vec![Rule { m_pt: Some(98), fixed: Some(222), off: 0, out_pt: Some(102), mid_id: None, mid: None }], ..base.clone() },
             vec![p(2222, 98, 2222), p(1111, 97, 1111), p(1111, 97, 1271)]),
            // one source SSRC changing payload type across rules keeps the output SSRC of its first packet
            (base.clone(), vec![p(5, 0, 0), p(5, 98, 160), p(5, 0, 320)]),
            // legacy params with DTMF remap
            (Cfg { init_seq: 32000, init_off: 12345, rules: vec![Rule { m_pt: None, fixed: None, off: 900, out_pt: Some(96), mid_id: None, mid: None },
                    Rule { m_pt: Some(101), fixed: None, off: 900, out_pt: Some(110), mid_id: None, mid: None }],
                   video_pts: vec![], has_video: false, legacy: Some((900, None, Some(96), Some((101, 110)))), ..base.clone() },
             vec![p(1111, 100, 1111), p(1111, 101, 1111), p(0xFFFF_FFFF, 100, 5)]),
            // a DTMF digit in the middle of a call (legacy params): one output SSRC, consecutive sequence numbers
            (Cfg { init_seq: 65533, init_off: 0, rules: vec![Rule { m_pt: None, fixed: Some(0xABCD), off: 0, out_pt: Some(0), mid_id: None, mid: None },
                    Rule { m_pt: Some(101), fixed: Some(0xABCD), off: 0, out_pt: Some(110), mid_id: None, mid: None }],
                   video_pts: vec![], has_video: false, legacy: Some((0, Some(0xABCD), Some(0), Some((101, 110)))), ..base.clone() },
             vec![p(7, 0, 160), p(7, 0, 320), p(7, 101, 480), p(7, 101, 480), p(7, 0, 640), p(7, 101, 800), p(7, 0, 960)]),
            // straggler 1000000 ticks late, then the next in-order packet: difference to the in-order stream kept
            (base.clone(), vec![p(1, 0, 2_000_000), p(1, 0, 2_000_160), p(1, 0, 1_000_160), p(1, 0, 2_000_320), p(1, 0, 2_000_480)]),
            // the same across the 32-bit wrap: newest just after the wrap, straggler from before it
            (base.clone(), vec![p(1, 0, 0xFFFF_FF60), p(1, 0, 0), p(1, 0, 160), p(1, 0, 160u32.wrapping_sub(1_000_000)), p(1, 0, 320), p(1, 0, 480)]),
            // MID stamping into an existing one-byte block (replace and append), two-byte block untouched
            (base.clone(), vec![
                In { ssrc: 9, pt: 98, seq: 1, ts: 0, marker: true, ext: Some(Ext { two_byte: false, elems: vec![(3, b"zz".to_vec()), (2, vec![1, 2, 3])] }), raw: None },
                In { ssrc: 9, pt: 98, seq: 2, ts: 160, marker: false, ext: Some(Ext { two_byte: false, elems: vec![(2, vec![9])] }), raw: None },
                In { ssrc: 9, pt: 98, seq: 3, ts: 320, marker: false, ext: Some(Ext { two_byte: true, elems: vec![(3, vec![9])] }), raw: None },
                // malformed one-byte block in front of the stamp: truncated element (set_extension treats it as the end)
                In { ssrc: 9, pt: 98, seq: 4, ts: 480, marker: false, ext: None, raw: Some((0xBEDE, vec![0x21, 1, 2, 0x3F])) },
                In { ssrc: 9, pt: 98, seq: 5, ts: 640, marker: false, ext: None, raw: Some((0xBEDE, vec![0xF0, 0x30, b'x', 0])) }]),
        ]
    }

    /// one source SSRC whose packets alternate between payload types that match DIFFERENT rules
    /// (audio + RFC 4733 telephone-event, with equal or different rule SSRCs), optionally with a
    /// second source interleaved: still one output SSRC and consecutive sequence numbers
    fn gen_pt_switch(r: &mut Rng) -> (Cfg, Vec<In>) {
        let same_ssrc = r.chance(1, 2);
        let legacy = r.chance(1, 3);
        let fixed = if r.chance(2, 3) { Some(*r.pick(&[111u32, 0xABCD])) } else { None };
        let off = *r.pick(&[0u32, 900]);
        let dtmf_out = *r.pick(&[110u8, 101]);
        let audio_out = if r.chance(2, 3) { Some(*r.pick(&[96u8, 0])) } else { None };
        let mut rules = vec![Rule { m_pt: None, fixed, off, out_pt: audio_out, mid_id: None, mid: None },
                             Rule { m_pt: Some(101), fixed: if same_ssrc || legacy { fixed } else { Some(222) }, off, out_pt: Some(dtmf_out), mid_id: None, mid: None }];
        if !legacy && r.chance(1, 2) { rules.push(Rule { m_pt: Some(8), fixed: Some(333), off: 0, out_pt: Some(9), mid_id: None, mid: None }); }
        let c = Cfg { strip: r.chance(1, 5), init_seq: *r.pick(&[65533u16, 65534, 0, 32000]), init_off: *r.pick(&[0u32, 12345, 0xFFFF_FF00]),
            init_out_ts: None, rules, video_pts: vec![], has_video: false,
            legacy: if legacy { Some((off, fixed, audio_out, Some((101, dtmf_out)))) } else { None } };
        let n = r.range(4, 12);
        let two = r.chance(1, 3);
        let mut ts = [*r.pick(&[0u32, 0xFFFF_FE00, 1000]), 5000u32];
        let mut ins = vec![];
        for k in 0..n {
            let s = if two && r.chance(1, 3) { 1 } else { 0 };
            ts[s] = ts[s].wrapping_add(160);
            let pt = if s == 1 { 0 } else if k % 2 == 1 || r.chance(1, 4) { *r.pick(&[101u8, 101, 8]) } else { 0 };
            ins.push(In { ssrc: 4000 + s as u32, pt, seq: k as u16, ts: ts[s], marker: pt == 101 && r.chance(1, 3), ext: None, raw: None });
        }
        (c, ins)
    }

    /// in-order stream, then a straggler more than 900000 ticks (and less than 2^31) older than the
    /// newest packet, then the next in-order packet -- also with the newest packet just after the
    /// 32-bit timestamp wrap and the straggler from before it.  The straggler must not move the
    /// reference: the in-order packets keep their source differences.
    fn gen_straggler(r: &mut Rng) -> (Cfg, Vec<In>) {
        let c = Cfg { strip: false, init_seq: *r.pick(&[7u16, 65535]), init_off: *r.pick(&[0u32, 0x8000_0000, 0xFFFF_FFF0]), init_out_ts: if r.chance(1, 4) { Some(50_000) } else { None },
            rules: if r.chance(1, 2) { vec![Rule { m_pt: None, fixed: Some(111), off: 0, out_pt: Some(96), mid_id: None, mid: None }] } else { vec![] },
            video_pts: vec![], has_video: false, legacy: None };
        let start = *r.pick(&[2_000_000u32, 0xFFFF_FF00, 0xFFFF_FFFF, 0u32.wrapping_sub(320), 0x7FFF_FF00, 1_000_000]);
        let behind = *r.pick(&[900_001u32, 900_000, 900_161, 2_000_000, 0x7FFF_FFFF, 0x4000_0000, 899_999, 1_000_000]);
        let mut ins = vec![];
        let mut ts = start;
        let mut seq = 0u16;
        let mut push = |ins: &mut Vec<In>, ssrc: u32, ts: u32| { ins.push(In { ssrc, pt: 0, seq, ts, marker: false, ext: None, raw: None }); seq = seq.wrapping_add(1); };
        for _ in 0..r.range(1, 3) { push(&mut ins, 6000, ts); ts = ts.wrapping_add(160); }
        let newest = ts.wrapping_sub(160);
        if r.chance(1, 3) { push(&mut ins, 6001, 42); }
        push(&mut ins, 6000, newest.wrapping_sub(behind));            // the straggler
        if r.chance(1, 3) { push(&mut ins, 6000, newest.wrapping_sub(behind).wrapping_add(160)); }   // a second late one
        for _ in 0..r.range(1, 3) { push(&mut ins, 6000, ts); ts = ts.wrapping_add(160); }
        (c, ins)
    }

    fn plain(c: Cfg, ins: Vec<In>) -> Scen {
        let mut ops = vec![BOp::Set(c)];
        ops.extend(ins.into_iter().map(|i| BOp::Pkt(i, true)));
        Scen { src_srtp: false, main: TMode::Plain, video: TMode::Plain, ops }
    }

    /// monotone input sequence numbers per source (the reference SRTP sender and the source's SRTP
    /// receiver must agree on the rollover counter) and extension blocks the reference parser accepts
    fn srtp_friendly(ins: &mut [In]) {
        let mut next: HashMap<u32, u16> = HashMap::new();
        for i in ins.iter_mut() {
            let n = next.entry(i.ssrc).or_insert(i.seq);
            i.seq = *n;
            *n = n.wrapping_add(1);
            i.raw = None;
            if i.ext.as_ref().map(|e| e.two_byte).unwrap_or(false) { i.ext = None; }
        }
    }

    /// SRTP on the source and / or the targets, targets that still wait for their session,
    /// packets that fail authentication in between
    fn gen_srtp(r: &mut Rng, stats: &mut BTreeMap<String, u64>) -> Scen {
        let mut c = gen_cfg(r);
        // one output SSRC per source: sources merged onto one fixed output SSRC each run their own
        // sequence counter, which an SRTP receiver of that SSRC cannot follow (notes/C19.md, observation)
        for ru in c.rules.iter_mut() { ru.fixed = None; }
        if let Some(l) = c.legacy.as_mut() { l.1 = None; }
        let n0 = r.range(3, 12) as usize;
        let mut ins = gen_ins(r, n0, stats);
        srtp_friendly(&mut ins);
        let src_srtp = r.chance(2, 3);
        let mode = |r: &mut Rng| *r.pick(&[TMode::Plain, TMode::Srtp, TMode::Srtp, TMode::NeedSrtp]);
        let (main, video) = (mode(r), mode(r));
        let mut ops = vec![BOp::Set(c)];
        let n = ins.len();
        let start_main = r.below(n as u64 + 1) as usize;
        let start_video = r.below(n as u64 + 1) as usize;
        for (k, i) in ins.into_iter().enumerate() {
            if k == start_main && main == TMode::NeedSrtp { ops.push(BOp::StartSrtp(false)); }
            if k == start_video && video == TMode::NeedSrtp { ops.push(BOp::StartSrtp(true)); }
            if r.chance(1, 6) {
                // a forged copy first: it must vanish without a trace
                ops.push(BOp::Pkt(i.clone(), false));
            }
            ops.push(BOp::Pkt(i, true));
        }
        Scen { src_srtp, main, video, ops }
    }

    /// bridge installed, cleared, installed again (same or other rule table) while the same source
    /// streams keep arriving
    fn gen_reinstall(r: &mut Rng, stats: &mut BTreeMap<String, u64>) -> Scen {
        let n0 = r.range(6, 16) as usize;
        let mut ins = gen_ins(r, n0, stats);
        let src_srtp = r.chance(1, 4);
        // the targets stay plain here: a re-installed bridge restarts the output sequence numbers, which an
        // SRTP receiver of the same SSRC cannot follow (notes/C19.md, observation)
        let main_mode = TMode::Plain;
        if src_srtp { srtp_friendly(&mut ins); }
        let c1 = gen_cfg(r);
        let c2 = if r.chance(1, 2) { c1.clone() } else { gen_cfg(r) };
        let mut ops = vec![];
        if r.chance(3, 4) { ops.push(BOp::Set(c1.clone())); }
        let n = ins.len();
        let cut1 = r.range(1, n as u64 - 2) as usize;
        let cut2 = r.range(cut1 as u64, n as u64 - 1) as usize;
        for (k, i) in ins.into_iter().enumerate() {
            if k == cut1 { ops.push(if r.chance(1, 2) { BOp::Clear } else { BOp::Set(c2.clone()) }); }
            if k == cut2 && cut2 > cut1 { ops.push(if r.chance(1, 3) { BOp::Clear } else { BOp::Set(if r.chance(1, 2) { c1.clone() } else { c2.clone() }) }); }
            ops.push(BOp::Pkt(i, !r.chance(1, 12)));
        }
        Scen { src_srtp, main: main_mode, video: TMode::Plain, ops }
    }

    fn scen_corpus() -> Vec<Scen> {
        let p = |ssrc: u32, pt: u8, seq: u16, ts: u32| BOp::Pkt(In { ssrc, pt, seq, ts, marker: false, ext: None, raw: None }, true);
        let bad = |ssrc: u32, pt: u8, seq: u16, ts: u32| BOp::Pkt(In { ssrc, pt, seq, ts, marker: false, ext: None, raw: None }, false);
        let c = Cfg { strip: false, init_seq: 65534, init_off: 1000, init_out_ts: None,
            rules: vec![Rule { m_pt: None, fixed: Some(111), off: 0, out_pt: Some(96), mid_id: Some(3), mid: Some("0".into()) },
                        Rule { m_pt: Some(98), fixed: Some(222), off: 0, out_pt: Some(102), mid_id: None, mid: None }],
            video_pts: vec![98], has_video: true, legacy: None };
        vec![
            // SRTP in, SRTP out on both targets; a forged packet in the middle leaves no trace
            Scen { src_srtp: true, main: TMode::Srtp, video: TMode::Srtp, ops: vec![BOp::Set(c.clone()),
                p(1, 0, 10, 0), p(2, 98, 500, 0), bad(1, 0, 11, 160), p(1, 0, 11, 160), p(2, 98, 501, 3000), p(1, 0, 12, 320)] },
            // the main target waits for its SRTP session: packets are rewritten and swallowed, the counter moves on
            Scen { src_srtp: false, main: TMode::NeedSrtp, video: TMode::Plain, ops: vec![BOp::Set(c.clone()),
                p(1, 0, 10, 0), p(1, 0, 11, 160), p(2, 98, 1, 0), BOp::StartSrtp(false), p(1, 0, 12, 320), p(1, 0, 13, 480)] },
            // re-installing the same rule table resets every stream; clearing hands packets to the listeners
            Scen { src_srtp: false, main: TMode::Plain, video: TMode::Plain, ops: vec![p(1, 0, 1, 0), BOp::Set(c.clone()),
                p(1, 0, 2, 160), p(1, 0, 3, 320), BOp::Set(c.clone()), p(1, 0, 4, 480), p(1, 0, 5, 640), BOp::Clear, p(1, 0, 6, 800),
                BOp::Set(c.clone()), p(1, 0, 7, 960)] },
        ]
    }

    pub async fn run(args: &Args, r: &mut Rng, out: &mut super::Out) -> serde_json::Value {
        let net = Net::new().await;
        let thorough = args.tier == "thorough";
        let mut stats: BTreeMap<String, u64> = BTreeMap::new();
        let mut all: Vec<(String, Scen)> = corpus().into_iter().map(|(c, i)| ("corpus".to_string(), plain(c, i))).collect();
        for sc in scen_corpus() { all.push(("corpus".into(), sc)); }
        let n = if thorough { 12000 } else { 1600 };
        for _ in 0..n {
            let c = gen_cfg(r);
            let len = if thorough { r.range(2, 30) } else { r.range(2, 14) } as usize;
            let ins = gen_ins(r, len, &mut stats);
            all.push(("random".into(), plain(c, ins)));
        }
        for _ in 0..(if thorough { 1500 } else { 300 }) {
            let (c, ins) = gen_pt_switch(r);
            all.push(("pt-switch".into(), plain(c, ins)));
        }
        for _ in 0..(if thorough { 1500 } else { 300 }) {
            let (c, ins) = gen_straggler(r);
            all.push(("straggler".into(), plain(c, ins)));
        }
        for _ in 0..(if thorough { 3000 } else { 500 }) {
            all.push(("srtp".into(), gen_srtp(r, &mut stats)));
        }
        for _ in 0..(if thorough { 3000 } else { 500 }) {
            all.push(("reinstall".into(), gen_reinstall(r, &mut stats)));
        }
        // sequence-number wrap-around over a long single stream
        let c = Cfg { strip: false, init_seq: 65000, init_off: 0, init_out_ts: None, rules: vec![], video_pts: vec![], has_video: false, legacy: None };
        all.push(("long".into(), plain(c, (0..700u32).map(|k| In { ssrc: 77, pt: 0, seq: k as u16, ts: k * 160, marker: false, ext: None, raw: None }).collect())));
        let mut pkts = 0u64;
        let mut kinds: BTreeMap<String, u64> = BTreeMap::new();
        for (kind, sc) in all {
            let (seen, panicked) = run_impl(&net, &sc).await;
            let fail = panicked.or_else(|| oracle(&sc, &seen));
            for o in &seen {
                pkts += 1;
                *kinds.entry(match o { Seen::Fwd(_) => "forwarded", Seen::Listener => "to_listener", Seen::Nothing => "nothing", Seen::Garbage(_) => "garbage" }.into()).or_default() += 1;
            }
            let term = format!("BridgeCase {} {} {} {}", mode_term(sc.main), mode_term(sc.video),
                list_term(&sc.ops.iter().map(bop_term).collect::<Vec<_>>()), list_term(&seen.iter().map(seen_term).collect::<Vec<_>>()));
            let npk = sc.ops.iter().filter(|o| matches!(o, BOp::Pkt(..))).count();
            out.push(Case {
                term,
                desc: json!({"part": "bridge", "source_srtp": sc.src_srtp, "main_target": format!("{:?}", sc.main), "video_target": format!("{:?}", sc.video),
                    "ops": sc.ops.iter().map(|o| format!("{:?}", o)).collect::<Vec<_>>(),
                    "seen": seen.iter().map(|o| format!("{:?}", o)).collect::<Vec<_>>() }),
                oracle_fail: fail,
                known: None,
                nontrivial: npk >= 2,
                key: format!("{:?}", sc),
                kind: format!("bridge-{}", kind),
            });
        }
        json!({"timestamp_steps": stats, "packets": pkts, "packet_outcomes": kinds})
    }
}

// ------------------------------------------------------------------------------ wire format
/// header-extension block of a crafted packet: one-byte (0xBEDE) or two-byte (0x1000) elements
#[derive(Clone, Debug, PartialEq)]
pub struct Ext {
    pub two_byte: bool,
    pub elems: Vec<(u8, Vec<u8>)>,
}

/// the extension block (profile, data padded to 32 bits) of an element list
pub fn ext_block(ext: &Option<Ext>) -> Option<(u16, Vec<u8>)> {
    let e = ext.as_ref()?;
    let mut d = vec![];
    for (id, data) in &e.elems {
        if e.two_byte {
            d.push(*id);
            d.push(data.len() as u8);
        } else {
            assert!((1..=14).contains(id) && (1..=16).contains(&data.len()));
            d.push((id << 4) | (data.len() as u8 - 1));
        }
        d.extend_from_slice(data);
    }
    while d.len() % 4 != 0 {
        d.push(0);
    }
    Some((if e.two_byte { 0x1000u16 } else { 0xBEDE }, d))
}

/// RTP packet built byte by byte (independently of rustrtc's marshaller); `block` = raw extension
/// block (profile, data; data length must be a multiple of 4)
pub fn build_rtp_raw(ssrc: u32, pt: u8, seq: u16, ts: u32, marker: bool, block: &Option<(u16, Vec<u8>)>, payload: &[u8]) -> Vec<u8> {
    let mut p = vec![0x80u8 | if block.is_some() { 0x10 } else { 0 }, (pt & 0x7f) | if marker { 0x80 } else { 0 }];
    p.extend_from_slice(&seq.to_be_bytes());
    p.extend_from_slice(&ts.to_be_bytes());
    p.extend_from_slice(&ssrc.to_be_bytes());
    if let Some((prof, d)) = block {
        assert!(d.len() % 4 == 0);
        p.extend_from_slice(&prof.to_be_bytes());
        p.extend_from_slice(&((d.len() / 4) as u16).to_be_bytes());
        p.extend_from_slice(d);
    }
    p.extend_from_slice(payload);
    p
}

pub fn block_term(b: &Option<(u16, Vec<u8>)>) -> String {
    match b { Some((p, d)) => format!("(Some ({}, {}))", p, bytes_term(d)), None => "None".into() }
}

/// malformed / unusual extension blocks: truncated elements, padding in the middle, the id-15
/// terminator, over-long length nibbles, unknown profiles, two-byte length overruns
pub fn gen_raw_block(r: &mut Rng, ids: &[u8]) -> (u16, Vec<u8>) {
    let id = *r.pick(ids);
    let id1 = if (1..=14).contains(&id) { id } else { 1 };
    let key = r.pick(&[b"a".as_slice(), b"0", b"hi", b"v"]).to_vec();
    let el = |id: u8, d: &[u8]| { let mut v = vec![(id << 4) | (d.len() as u8 - 1)]; v.extend_from_slice(d); v };
    let (prof, mut d): (u16, Vec<u8>) = match r.below(9) {
        0 => { let mut v = vec![0, 0]; v.extend(el(id1, &key)); (0xBEDE, v) }                      // leading padding
        1 => { let mut v = el(2, &[7]); v.push(0); v.extend(el(id1, &key)); (0xBEDE, v) }            // padding between elements
        2 => { let mut v = vec![0xF0]; v.extend(el(id1, &key)); (0xBEDE, v) }                        // id 15 stops the scan
        3 => { let mut v = el(3, &[1, 2]); v.push((id1 << 4) | 0x0F); v.extend_from_slice(&key); (0xBEDE, v) } // length nibble overruns the block
        4 => (0xBEDE, vec![(id1 << 4) | 3, key[0]]),                                                 // truncated element
        5 => (*r.pick(&[0x1234u16, 0xBEDF, 0x1001, 0]), el(id1, &key)),                             // unknown profile
        6 => { let mut v = vec![id, 200]; v.extend_from_slice(&key); (0x1000, v) }                   // two-byte: length overruns
        7 => { let mut v = vec![0, id, key.len() as u8]; v.extend_from_slice(&key); v.push(id); (0x1000, v) } // two-byte: dangling id at the end
        _ => { let mut v = el(id1, &key); v.extend(el(id1, b"zz")); (0xBEDE, v) }                    // same id twice
    };
    while d.len() % 4 != 0 { d.push(0); }
    (prof, d)
}

pub fn build_rtp(ssrc: u32, pt: u8, seq: u16, ts: u32, marker: bool, ext: &Option<Ext>, payload: &[u8]) -> Vec<u8> {
    build_rtp_raw(ssrc, pt, seq, ts, marker, &ext_block(ext), payload)
}

pub fn elems_term(elems: &[(u8, Vec<u8>)]) -> String {
    list_term(&elems.iter().map(|(id, d)| format!("({}, {})", id, bytes_term(d))).collect::<Vec<_>>())
}

// ------------------------------------------------------------------------------ demux operations
#[derive(Clone, Debug)]
struct Pkt {
    ssrc: u32,
    pt: u8,
    ext: Option<Ext>,
    /// a raw (possibly malformed) extension block instead of `ext`
    raw: Option<(u16, Vec<u8>)>,
}
impl Pkt {
    fn block(&self) -> Option<(u16, Vec<u8>)> { self.raw.clone().or_else(|| ext_block(&self.ext)) }
}

#[derive(Clone, Debug)]
enum Op {
    RegSsrc(u32, usize),
    RegRid(String, usize),
    RegMid(String, usize),
    RegPt(u8, usize),
    RegPtList(Vec<u8>, usize),
    RegProv(usize),
    SetRidId(u8),
    SetMidId(u8),
    Close(usize),
    Clear,
    Probe(u32),
    Drain(usize),
    Recv(Pkt),
}

fn key_term(s: &str) -> String {
    bytes_term(s.as_bytes())
}

fn op_term(o: &Op) -> String {
    match o {
        Op::RegSsrc(x, l) => format!("RegSsrc {} {}", x, l),
        Op::RegRid(k, l) => format!("RegRid {} {}", key_term(k), l),
        Op::RegMid(k, l) => format!("RegMid {} {}", key_term(k), l),
        Op::RegPt(pt, l) => format!("RegPt {} {}", pt, l),
        Op::RegPtList(pts, l) => format!("RegPtList {} {}", bytes_term(pts), l),
        Op::RegProv(l) => format!("RegProv {}", l),
        Op::SetRidId(i) => format!("SetRidId {}", i),
        Op::SetMidId(i) => format!("SetMidId {}", i),
        Op::Close(l) => format!("Close {}", l),
        Op::Clear => "ClearListeners".into(),
        Op::Probe(x) => format!("Probe {}", x),
        Op::Drain(l) => format!("Drain {}", l),
        Op::Recv(p) => format!("Recv (mkPkt {} {} {})", p.ssrc, p.pt, block_term(&p.block())),
    }
}

fn op_json(o: &Op) -> serde_json::Value {
    match o {
        Op::RegSsrc(x, l) => json!({"register_listener_sync": [x, l]}),
        Op::RegRid(k, l) => json!({"register_rid_listener": [k, l]}),
        Op::RegMid(k, l) => json!({"register_mid_listener": [k, l]}),
        Op::RegPt(pt, l) => json!({"register_pt_listener": [pt, l]}),
        Op::RegPtList(pts, l) => json!({"register_payload_list_listener": [pts, l]}),
        Op::RegProv(l) => json!({"register_provisional_listener": l}),
        Op::SetRidId(i) => json!({"set_rid_extension_id": i}),
        Op::SetMidId(i) => json!({"set_sdes_mid_extension_id": i}),
        Op::Close(l) => json!({"drop_receiver_of_listener": l}),
        Op::Clear => json!("clear_listeners"),
        Op::Probe(x) => json!({"has_listener": x}),
        Op::Drain(l) => json!({"consumer_drains_listener": l}),
        Op::Recv(p) => json!({"recv": {"ssrc": p.ssrc, "pt": p.pt, "raw_ext_block": p.raw,
            "ext": p.ext.as_ref().map(|e| json!({"two_byte": e.two_byte,
                "elems": e.elems.iter().map(|(i, d)| json!([i, d])).collect::<Vec<_>>() }))}}),
    }
}

/// (listeners that received the packet, has_listener(ssrc) afterwards)
type Obs = (Vec<usize>, bool);

const NL: usize = 5;

struct ImplRun {
    obs: Vec<Obs>,
    /// (operation index, what panicked): a panic in the real code is an observable result
    panics: Vec<(usize, String)>,
    /// has_listener(ssrc) immediately before each Recv (oracle input only)
    bound_before: Vec<bool>,
    payload_mismatch: Option<String>,
}

async fn run_impl(cap: usize, ops: &[Op]) -> ImplRun {
    let (_tx, rx) = watch::channel(None::<IceSocketWrapper>);
    let conn = IceConn::new(rx, "127.0.0.1:1234".parse().unwrap(), None);
    let t = RtpTransport::new(conn, false);
    let mut txs = vec![];
    let mut rxs: Vec<Option<mpsc::Receiver<(RtpPacket, SocketAddr)>>> = vec![];
    for _ in 0..NL {
        let (tx, rx) = mpsc::channel(cap);
        txs.push(tx);
        rxs.push(Some(rx));
    }
    let from: SocketAddr = "127.0.0.1:5000".parse().unwrap();
    let mut buf = Vec::new();
    let mut out = ImplRun { obs: vec![], panics: vec![], bound_before: vec![], payload_mismatch: None };
    let mut seq: u16 = 0;
    let mut sent: Vec<(u32, u8)> = vec![];
    use futures::FutureExt;
    use std::panic::AssertUnwindSafe as Aus;
    for (oi, o) in ops.iter().enumerate() {
        // every call into the real code runs under catch: a panic is recorded, the case goes on
        let mut guard = |name: &str, r: Result<(), String>, panics: &mut Vec<(usize, String)>| {
            if let Err(m) = r { panics.push((oi, format!("{} panicked: {}", name, m))); }
        };
        match o {
            Op::RegSsrc(x, l) => guard("register_listener_sync", catch(Aus(|| t.register_listener_sync(*x, txs[*l].clone()))), &mut out.panics),
            Op::RegRid(k, l) => guard("register_rid_listener", catch(Aus(|| t.register_rid_listener(k.clone(), txs[*l].clone()))), &mut out.panics),
            Op::RegMid(k, l) => guard("register_mid_listener", catch(Aus(|| t.register_mid_listener(k.clone(), txs[*l].clone()))), &mut out.panics),
            Op::RegPt(pt, l) => guard("register_pt_listener", catch(Aus(|| t.register_pt_listener(*pt, txs[*l].clone()))), &mut out.panics),
            Op::RegPtList(pts, l) => guard("register_payload_list_listener", catch(Aus(|| t.register_payload_list_listener(pts.clone(), txs[*l].clone()))), &mut out.panics),
            Op::RegProv(l) => guard("register_provisional_listener", catch(Aus(|| t.register_provisional_listener(txs[*l].clone()))), &mut out.panics),
            Op::SetRidId(i) => guard("set_rid_extension_id", catch(Aus(|| t.set_rid_extension_id(if *i == 0 { None } else { Some(*i) }))), &mut out.panics),
            Op::SetMidId(i) => guard("set_sdes_mid_extension_id", catch(Aus(|| t.set_sdes_mid_extension_id(if *i == 0 { None } else { Some(*i) }))), &mut out.panics),
            Op::Close(l) => {
                rxs[*l] = None;
            }
            Op::Clear => guard("clear_listeners", catch(Aus(|| { t.clear_listeners(); })), &mut out.panics),
            Op::Probe(x) => match catch(Aus(|| t.has_listener(*x))) {
                Ok(b) => out.obs.push((vec![], b)),
                Err(m) => { out.panics.push((oi, format!("has_listener panicked: {}", m))); out.obs.push((vec![], false)); }
            },
            Op::Drain(l) => {
                // the consumer empties its channel: packet tags (= our sequence numbers) in the order received
                let mut tags = vec![];
                if let Some(r) = rxs[*l].as_mut() {
                    while let Ok((pk, a)) = r.try_recv() {
                        let tag = pk.header.sequence_number as usize;
                        tags.push(tag);
                        match sent.get(tag) {
                            Some((ssrc, pt)) if *ssrc == pk.header.ssrc && (*pt & 0x7f) == pk.header.payload_type && a == from => {}
                            _ => out.payload_mismatch = Some(format!(
                                "listener {} received a packet that was never sent like this (ssrc {} pt {} seq {})",
                                l, pk.header.ssrc, pk.header.payload_type, pk.header.sequence_number)),
                        }
                    }
                }
                out.obs.push((tags, false));
            }
            Op::Recv(p) => {
                out.bound_before.push(catch(Aus(|| t.has_listener(p.ssrc))).unwrap_or(false));
                let wire = build_rtp_raw(p.ssrc, p.pt, seq, 1000, false, &p.block(), &[seq as u8; 4]);
                sent.push((p.ssrc, p.pt));
                seq = seq.wrapping_add(1);
                // who received it: the open channels whose free capacity went down (nothing is drained here)
                let before: Vec<Option<usize>> = (0..NL).map(|i| rxs[i].as_ref().map(|_| txs[i].capacity())).collect();
                if let Err(e) = Aus(t.receive(Bytes::from(wire), from, &mut buf)).catch_unwind().await {
                    out.panics.push((oi, format!("receive panicked: {}", panic_msg(e))));
                }
                let mut got = vec![];
                for i in 0..NL {
                    if let Some(b) = before[i] {
                        let a = txs[i].capacity();
                        for _ in a..b { got.push(i); }
                    }
                }
                out.obs.push((got, catch(Aus(|| t.has_listener(p.ssrc))).unwrap_or(false)));
            }
        }
    }
    out
}

pub fn panic_msg(e: Box<dyn std::any::Any + Send>) -> String {
    if let Some(s) = e.downcast_ref::<&str>() { s.to_string() }
    else if let Some(s) = e.downcast_ref::<String>() { s.clone() } else { "panic".into() }
}

// ------------------------------------------------------------------------------ direct oracle
// From the property text: at most one receiver; the receiver is a registered listener; a RID / MID
// naming a registered (open) listener decides; else a known SSRC decides; else an unambiguous
// payload type; ambiguity is dropped (the single provisional listener is the documented
// catch-all and never learns an SSRC).  Independent of the Coq model: it tracks who registered
// what, not the registry's internal maps.
#[derive(Default)]
struct Oracle {
    rid_id: u8,
    mid_id: u8,
    rid_owner: HashMap<Vec<u8>, usize>,
    mid_owner: HashMap<Vec<u8>, usize>,
    ssrc_owner: HashMap<u32, usize>,
    pts: HashMap<usize, Vec<u8>>,
    prov: BTreeSet<usize>,
    named: BTreeSet<usize>,
    closed: BTreeSet<usize>,
    any_close: bool,
    /// latest register_mid_listener value per listener (since the last clear)
    mid_of: HashMap<usize, Vec<u8>>,
    /// packets delivered to a listener and not yet taken out by its consumer (tags, in order)
    pending: HashMap<usize, Vec<usize>>,
    raw_seen: bool,
}

fn ext_key(id: u8, p: &Pkt) -> Option<Vec<u8>> {
    if id == 0 {
        return None;
    }
    let e = p.ext.as_ref()?;
    if !e.two_byte && id >= 15 {
        return None;
    }
    let d = e.elems.iter().find(|(i, _)| *i == id)?.1.clone();
    if std::str::from_utf8(&d).is_ok() { Some(d) } else { None }
}

fn oracle(cap: usize, ops: &[Op], run: &ImplRun) -> Option<String> {
    if let Some((i, m)) = run.panics.first() {
        return Some(format!("op {}: {} (a registration / receive call must never panic)", i, m));
    }
    if let Some(m) = &run.payload_mismatch {
        return Some(m.clone());
    }
    let mut o = Oracle::default();
    let mut oi = 0usize;
    let mut ri = 0usize;
    for (i, op) in ops.iter().enumerate() {
        match op {
            Op::RegSsrc(x, l) => { o.ssrc_owner.insert(*x, *l); o.named.insert(*l); }
            Op::RegRid(k, l) => { o.rid_owner.insert(k.as_bytes().to_vec(), *l); o.named.insert(*l); }
            Op::RegMid(k, l) => { o.mid_owner.insert(k.as_bytes().to_vec(), *l); o.mid_of.insert(*l, k.as_bytes().to_vec()); o.named.insert(*l); o.pts.entry(*l).or_default(); }
            Op::RegPt(pt, l) => { let v = o.pts.entry(*l).or_default(); if !v.contains(pt) { v.push(*pt); } o.named.insert(*l); }
            Op::RegPtList(pts, l) => { o.pts.insert(*l, pts.clone()); o.named.insert(*l); }
            Op::RegProv(l) => { o.prov.insert(*l); o.named.insert(*l); o.pts.entry(*l).or_default(); }
            Op::SetRidId(x) => o.rid_id = *x,
            Op::SetMidId(x) => o.mid_id = *x,
            Op::Close(l) => { o.closed.insert(*l); o.any_close = true; }
            Op::Clear => {
                // "Clear all listeners to stop receiving packets": nobody is registered afterwards
                o.rid_owner.clear(); o.mid_owner.clear(); o.ssrc_owner.clear(); o.pts.clear(); o.prov.clear(); o.named.clear(); o.mid_of.clear();
            }
            Op::Probe(_) => { oi += 1; }
            Op::Drain(l) => {
                let (tags, _) = &run.obs[oi];
                oi += 1;
                if !o.closed.contains(l) {
                    let want = o.pending.remove(l).unwrap_or_default();
                    if *tags != want {
                        return Some(format!("op {}: consumer of listener {} found packets {:?} in its channel, but {:?} were delivered to it in this order (lost, duplicated or reordered)", i, l, tags, want));
                    }
                }
            }
            Op::Recv(p) => {
                let (got, bound_after) = &run.obs[oi];
                let bound_before = run.bound_before[ri];
                let tag = ri;
                oi += 1;
                ri += 1;
                if got.len() > 1 {
                    return Some(format!("op {}: packet delivered to {} listeners {:?}", i, got.len(), got));
                }
                if let Some(d) = got.first() {
                    if !o.named.contains(d) {
                        return Some(format!("op {}: packet delivered to listener {} which is not registered (never registered, or cleared by clear_listeners)", i, d));
                    }
                    if o.pending.get(d).map(|v| v.len()).unwrap_or(0) >= cap {
                        return Some(format!("op {}: listener {} already holds {} undelivered packets (capacity {}) and got another one", i, d, cap, cap));
                    }
                    o.pending.entry(*d).or_default().push(tag);
                }
                if p.raw.is_some() {
                    // malformed / unusual extension block: what it carries is decided by the byte-level
                    // parser (model comparison); the oracle keeps to the checks above
                    if let Some(d) = got.first() { if *bound_after { o.ssrc_owner.insert(p.ssrc, *d); } } else if !*bound_after { o.ssrc_owner.remove(&p.ssrc); }
                    o.raw_seen = true;
                    continue;
                }
                let rid = ext_key(o.rid_id, p);
                let mid = ext_key(o.mid_id, p);
                let rid_own = rid.as_ref().and_then(|k| o.rid_owner.get(k).copied());
                let mid_own = mid.as_ref().and_then(|k| o.mid_owner.get(k).copied());
                // "dropped rather than handed to a receiver of another media section"
                if let (Some(d), Some(m)) = (got.first(), &mid) {
                    if let Some(md) = o.mid_of.get(d) {
                        if md != m && rid_own != Some(*d) && mid_own != Some(*d) {
                            return Some(format!("op {}: the packet names media section {:?} but was handed to listener {} which registered for section {:?} (neither its RID nor its MID selected that listener)", i, String::from_utf8_lossy(m), d, String::from_utf8_lossy(md)));
                        }
                    }
                }
                let full = |o: &Oracle, l: usize| o.pending.get(&l).map(|v| v.len()).unwrap_or(0) >= cap + if got.first() == Some(&l) { 1 } else { 0 };
                // what a hit on listener l must look like: delivered unless its channel is full
                let deliver = |o: &Oracle, l: usize| -> Vec<usize> { if full(o, l) { vec![] } else { vec![l] } };
                // a non-extension hit on a listener registered for another section is dropped
                let foreign = |o: &Oracle, l: usize| -> bool { match (&mid, o.mid_of.get(&l)) { (Some(m), Some(md)) => md != m, _ => false } };
                if let Some(l) = rid_own {
                    if !o.closed.contains(&l) {
                        if got != &deliver(&o, l) {
                            return Some(format!("op {}: RID names open listener {} but the packet went to {:?}", i, l, got));
                        }
                        o.ssrc_owner.insert(p.ssrc, l);
                    } else {
                        o.ssrc_owner.remove(&p.ssrc);
                    }
                    continue;
                }
                if let Some(l) = mid_own {
                    if !o.closed.contains(&l) {
                        if got != &deliver(&o, l) {
                            return Some(format!("op {}: MID names open listener {} (a registered media section) but the packet went to {:?}", i, l, got));
                        }
                        o.ssrc_owner.insert(p.ssrc, l);
                    } else {
                        o.ssrc_owner.remove(&p.ssrc);
                    }
                    continue;
                }
                // no RID / MID names anybody and the SSRC is unbound: only the payload type (or the
                // provisional catch-all) can route this packet, so whoever gets it must have claimed
                // the payload type itself or be provisional.  An open listener's own registrations
                // are never pruned, so this holds with closed listeners around as well.
                if !bound_before && !o.ssrc_owner.contains_key(&p.ssrc) && !o.raw_seen {
                    if let Some(d) = got.first() {
                        let claims = o.pts.get(d).map(|v| v.contains(&(p.pt & 0x7f))).unwrap_or(false);
                        if !claims && !o.prov.contains(d) {
                            return Some(format!("op {}: unbound SSRC {}, no RID/MID: payload type {} was never registered by listener {} (its list: {:?}) and it is not provisional, yet it received the packet (claimed by {:?})",
                                i, p.ssrc, p.pt, d, o.pts.get(d), o.pts.iter().filter(|(_, v)| v.contains(&(p.pt & 0x7f))).map(|(l, _)| *l).collect::<Vec<_>>()));
                        }
                    } else {
                        let claim: Vec<usize> = o.pts.iter().filter(|(_, v)| v.contains(&(p.pt & 0x7f))).map(|(l, _)| *l).collect();
                        if claim.len() == 1 && !o.closed.contains(&claim[0]) && o.any_close && !full(&o, claim[0]) && !foreign(&o, claim[0]) {
                            return Some(format!("op {}: payload type {} is claimed by open listener {} only (no closed listener lists it) but the packet was dropped", i, p.pt, claim[0]));
                        }
                    }
                }
                if o.any_close || o.raw_seen {
                    // closed listeners are pruned lazily; which of THEIR registrations are still in force
                    // is not determined by the property text -- only the checks above apply
                    if let Some(d) = got.first() { if *bound_after { o.ssrc_owner.insert(p.ssrc, *d); } }
                    continue;
                }
                if let Some(l) = o.ssrc_owner.get(&p.ssrc).copied() {
                    let want = if foreign(&o, l) { vec![] } else { deliver(&o, l) };
                    if got != &want {
                        return Some(format!("op {}: SSRC {} is known to belong to listener {} but the packet went to {:?} (expected {:?})", i, p.ssrc, l, got, want));
                    }
                    continue;
                }
                if bound_before {
                    return Some(format!("op {}: has_listener({}) is true although nothing registered or identified that SSRC", i, p.ssrc));
                }
                let claim: Vec<usize> = o.pts.iter().filter(|(_, v)| v.contains(&(p.pt & 0x7f))).map(|(l, _)| *l).collect();
                if claim.len() == 1 {
                    if foreign(&o, claim[0]) {
                        if !got.is_empty() || *bound_after {
                            return Some(format!("op {}: payload type {} belongs to listener {} which registered for another section than the packet names: must be dropped unbound, went to {:?}", i, p.pt, claim[0], got));
                        }
                        continue;
                    }
                    if got != &deliver(&o, claim[0]) {
                        return Some(format!("op {}: payload type {} belongs to listener {} only but the packet went to {:?}", i, p.pt, claim[0], got));
                    }
                    if !*bound_after {
                        return Some(format!("op {}: unique payload-type evidence did not bind SSRC {}", i, p.ssrc));
                    }
                    o.ssrc_owner.insert(p.ssrc, claim[0]);
                    continue;
                }
                // ambiguous or unknown payload type: only the single provisional listener may get it
                if o.prov.len() == 1 {
                    let l = *o.prov.iter().next().unwrap();
                    let want = if foreign(&o, l) { vec![] } else { deliver(&o, l) };
                    if got != &want {
                        return Some(format!("op {}: only the single provisional listener {} may receive this packet (expected {:?}), went to {:?}", i, l, want, got));
                    }
                } else if !got.is_empty() {
                    return Some(format!("op {}: payload type {} is claimed by {:?} and there are {} provisional listeners: the packet must be dropped, went to {:?}",
                        i, p.pt, claim, o.prov.len(), got));
                }
                if *bound_after {
                    return Some(format!("op {}: SSRC {} was bound although only the provisional fallback (or nothing) matched", i, p.ssrc));
                }
            }
        }
    }
    None
}

// ------------------------------------------------------------------------------ generators
const KEYS: &[&str] = &["0", "1", "a", "hi", "é", ""];

fn gen_ext(r: &mut Rng, rid_id: u8, mid_id: u8, stats: &mut BTreeMap<String, u64>) -> Option<Ext> {
    if r.chance(1, 4) {
        *stats.entry("pkt_no_ext".into()).or_default() += 1;
        return None;
    }
    let two = r.chance(1, 5);
    let n = r.range(0, 3);
    let mut elems = vec![];
    for _ in 0..n {
        let id: u8 = if two {
            *r.pick(&[rid_id, mid_id, 1, 2, 3, 15, 200])
        } else {
            *r.pick(&[rid_id, mid_id, 1, 2, 3, 14])
        };
        let id = if id == 0 { 4 } else { id };
        let id = if !two && id > 14 { 5 } else { id };
        let data: Vec<u8> = match r.below(10) {
            0 => vec![0xff],                       // invalid UTF-8
            1 => vec![0xc3],                       // truncated 2-byte sequence
            2 => vec![0xed, 0xa0, 0x80],           // surrogate: invalid
            3 => vec![0xe2, 0x82, 0xac],           // valid 3-byte
            _ => r.pick(KEYS).as_bytes().to_vec(),
        };
        let data = if data.is_empty() && !two { b"0".to_vec() } else { data };
        elems.push((id, data));
    }
    *stats.entry(if two { "pkt_two_byte_ext" } else { "pkt_one_byte_ext" }.into()).or_default() += 1;
    Some(Ext { two_byte: two, elems })
}

fn gen_case(r: &mut Rng, stats: &mut BTreeMap<String, u64>, long: bool) -> Vec<Op> {
    let nl = r.range(2, NL as u64) as usize;
    let ssrcs: Vec<u32> = vec![1, 2, 3, 0xFFFF_FFFF];
    let pts: Vec<u8> = vec![96, 97, 0, 8, 127];
    let mut rid_id: u8 = *r.pick(&[0u8, 2, 2, 3, 15, 200]);
    let mut mid_id: u8 = *r.pick(&[0u8, 1, 1, 1, 2, 14]);
    let mut ops = vec![];
    if rid_id != 0 || r.chance(1, 2) { ops.push(Op::SetRidId(rid_id)); }
    if mid_id != 0 || r.chance(1, 2) { ops.push(Op::SetMidId(mid_id)); }
    let n = if long { r.range(6, 40) } else { r.range(4, 22) };
    let closes = r.chance(1, 2);
    for step in 0..n {
        let k = r.below(100);
        let l = r.below(nl as u64) as usize;
        // registrations dominate the first third, packets the rest
        let reg_bias = if step * 3 < n { 30 } else { 0 };
        let op = if k < 8 + reg_bias / 3 {
            Op::RegMid(r.pick(KEYS).to_string(), l)
        } else if k < 14 + reg_bias / 2 {
            if r.chance(1, 2) { Op::RegPtList((0..r.range(0, 3)).map(|_| *r.pick(&pts)).collect(), l) } else { Op::RegPt(*r.pick(&pts), l) }
        } else if k < 18 + reg_bias * 2 / 3 {
            Op::RegProv(l)
        } else if k < 22 + reg_bias * 5 / 6 {
            Op::RegRid(r.pick(KEYS).to_string(), l)
        } else if k < 26 + reg_bias {
            Op::RegSsrc(*r.pick(&ssrcs), l)
        } else if k < 28 + reg_bias {
            if r.chance(1, 2) { rid_id = *r.pick(&[0u8, 1, 2, 3]); Op::SetRidId(rid_id) } else { mid_id = *r.pick(&[0u8, 1, 2, 3]); Op::SetMidId(mid_id) }
        } else if k < 33 + reg_bias {
            if closes { Op::Close(l) } else { Op::Probe(*r.pick(&ssrcs)) }
        } else if k < 35 + reg_bias {
            Op::Clear
        } else if k < 38 + reg_bias {
            Op::Probe(*r.pick(&ssrcs))
        } else if k < 41 + reg_bias {
            Op::Drain(l)
        } else {
            if r.chance(1, 8) {
                *stats.entry("pkt_raw_block".into()).or_default() += 1;
                Op::Recv(Pkt { ssrc: *r.pick(&ssrcs), pt: *r.pick(&pts), ext: None, raw: Some(gen_raw_block(r, &[rid_id, mid_id, 1, 2])) })
            } else {
                Op::Recv(Pkt { ssrc: *r.pick(&ssrcs), pt: *r.pick(&pts), ext: gen_ext(r, rid_id, mid_id, stats), raw: None })
            }
        };
        // after a close, often refresh another listener's route registration on the same sender
        let op = if closes && matches!(ops.last(), Some(Op::Close(_))) && r.chance(1, 2) {
            match r.below(3) {
                0 => Op::RegPtList((0..r.range(1, 3)).map(|_| *r.pick(&pts)).collect(), l),
                1 => Op::RegPt(*r.pick(&pts), l),
                _ => Op::RegMid(r.pick(KEYS).to_string(), l),
            }
        } else { op };
        let name = match &op {
            Op::RegSsrc(..) => "reg_ssrc", Op::RegRid(..) => "reg_rid", Op::RegMid(..) => "reg_mid", Op::RegPt(..) => "reg_pt",
            Op::RegPtList(..) => "reg_pt_list", Op::RegProv(..) => "reg_prov", Op::SetRidId(..) => "set_rid_id",
            Op::SetMidId(..) => "set_mid_id", Op::Close(..) => "close", Op::Clear => "clear", Op::Probe(..) => "probe", Op::Drain(..) => "drain", Op::Recv(..) => "recv",
        };
        *stats.entry(name.into()).or_default() += 1;
        ops.push(op);
    }
    ops
}

fn mid_ext(id: u8, m: &str) -> Option<Ext> {
    Some(Ext { two_byte: false, elems: vec![(id, m.as_bytes().to_vec())] })
}

fn corpus() -> Vec<Vec<Op>> {
    let p = |ssrc: u32, pt: u8, ext: Option<Ext>| Op::Recv(Pkt { ssrc, pt, ext, raw: None });
    vec![
        // specific listener isolation (unit test): second SSRC is dropped, not bound
        vec![Op::RegSsrc(100, 0), p(100, 0, None), p(200, 0, None), Op::Probe(200)],
        // provisional listener is promiscuous and never binds
        vec![Op::RegProv(0), p(1111, 0, None), Op::Probe(1111), p(2222, 0, None), p(3333, 8, None)],
        // ambiguous payload type, two provisional listeners: dropped
        vec![Op::RegProv(0), Op::RegPtList(vec![96], 0), Op::RegProv(1), Op::RegPtList(vec![96], 1), p(4444, 96, None), Op::Probe(4444)],
        // MID routes and binds when the payload type is ambiguous; the learnt SSRC then routes alone
        vec![Op::SetMidId(1), Op::RegMid("as".into(), 0), Op::RegPtList(vec![96], 0), Op::RegMid("vs".into(), 1), Op::RegPtList(vec![96], 1),
             p(5555, 96, mid_ext(1, "vs")), p(5555, 96, None), p(7777, 96, None)],
        // MID overrides an existing SSRC mapping and re-binds
        vec![Op::SetMidId(1), Op::RegSsrc(6666, 0), Op::RegMid("as".into(), 0), Op::RegMid("vs".into(), 1),
             p(6666, 96, mid_ext(1, "vs")), p(6666, 96, None)],
        // SSRC learnt from a MID packet later meets another section's payload type: SSRC wins over PT
        vec![Op::SetMidId(1), Op::RegMid("0".into(), 0), Op::RegPtList(vec![111], 0), Op::RegMid("1".into(), 1), Op::RegPtList(vec![96], 1),
             p(9, 111, mid_ext(1, "0")), p(9, 96, None), p(10, 96, None), p(10, 111, None)],
        // RID beats MID; same extension id configured for both
        vec![Op::SetRidId(2), Op::SetMidId(2), Op::RegRid("a".into(), 0), Op::RegMid("a".into(), 1), p(1, 96, mid_ext(2, "a")), p(1, 96, None)],
        // closed listener: selected, observed closed, removed from every map; next packet falls through
        vec![Op::SetMidId(1), Op::RegMid("a".into(), 0), Op::RegPt(96, 0), Op::RegSsrc(1, 0), Op::RegPt(96, 1), Op::Close(0),
             p(1, 96, None), p(1, 96, mid_ext(1, "a")), p(1, 96, None), Op::Probe(1)],
        // a closed MID listener shadows an open SSRC registration of another listener
        vec![Op::SetMidId(1), Op::RegMid("a".into(), 0), Op::RegSsrc(5, 1), Op::Close(0), p(5, 0, mid_ext(1, "a")), Op::Probe(5), p(5, 0, None)],
        // route pruning on registration of a new channel
        vec![Op::RegProv(0), Op::RegPt(96, 1), Op::Close(0), Op::Close(1), Op::RegProv(2), p(1, 96, None), p(1, 0, None)],
        // closed route earlier in `routes`, B refreshes its list on the same sender, C follows: PT 98 is B's alone
        vec![Op::RegPtList(vec![96], 0), Op::RegPtList(vec![97], 1), Op::RegPtList(vec![111], 2), Op::Close(0),
             Op::RegPtList(vec![97, 98], 1), p(31, 98, None), p(32, 111, None), p(33, 97, None)],
        // same with B as the last route (an index computed before pruning would be out of range)
        vec![Op::RegProv(0), Op::RegPtList(vec![97], 1), Op::Close(0), Op::RegPtList(vec![98], 1), p(41, 98, None), Op::RegMid("b".into(), 1), p(42, 98, None)],
        // clear_listeners: nobody is registered afterwards, also not through the MID map
        vec![Op::SetMidId(1), Op::RegMid("a".into(), 0), Op::Clear, p(9, 96, mid_ext(1, "a")), Op::Probe(9)],
        // F27 (fixed): a packet naming section "v" is not handed, by payload type / SSRC / provisional, to the
        // listener registered for section "a"; a listener without any MID still gets it
        vec![Op::SetMidId(1), Op::RegMid("a".into(), 0), Op::RegPtList(vec![96], 0), p(9, 96, mid_ext(1, "v")), Op::Probe(9),
             Op::RegSsrc(9, 0), p(9, 96, mid_ext(1, "v")), Op::RegProv(0), p(10, 5, mid_ext(1, "v")), p(10, 5, None),
             Op::RegPtList(vec![97], 1), p(11, 97, mid_ext(1, "v"))],
        // malformed extension blocks: truncated MID element, id-15 terminator in front of the MID, padding, unknown profile
        vec![Op::SetMidId(1), Op::RegMid("a".into(), 0), Op::RegProv(1),
             Op::Recv(Pkt { ssrc: 1, pt: 0, ext: None, raw: Some((0xBEDE, vec![0x13, b'a', 0, 0])) }),
             Op::Recv(Pkt { ssrc: 2, pt: 0, ext: None, raw: Some((0xBEDE, vec![0xF0, 0x10, b'a', 0])) }),
             Op::Recv(Pkt { ssrc: 3, pt: 0, ext: None, raw: Some((0xBEDE, vec![0, 0, 0x10, b'a'])) }),
             Op::Recv(Pkt { ssrc: 4, pt: 0, ext: None, raw: Some((0x1234, vec![0x10, b'a', 0, 0])) }),
             Op::Recv(Pkt { ssrc: 5, pt: 0, ext: None, raw: Some((0x1000, vec![1, 9, b'a', 0])) }),
             Op::Recv(Pkt { ssrc: 6, pt: 0, ext: None, raw: Some((0x1000, vec![1, 1, b'a', 0])) })],
        // invalid UTF-8 in the MID extension is ignored
        vec![Op::SetMidId(1), Op::RegMid("a".into(), 0), Op::RegProv(1), p(9, 96, Some(Ext { two_byte: false, elems: vec![(1, vec![0xff])] }))],
        // two-byte extension form, empty MID value registered
        vec![Op::SetMidId(200), Op::RegMid("".into(), 0), p(9, 96, Some(Ext { two_byte: true, elems: vec![(200, vec![])] }))],
        // register_pt after register_payload_list on the same channel; duplicates in the list
        vec![Op::RegPtList(vec![96, 96, 97], 0), Op::RegPt(97, 0), Op::RegPt(8, 0), Op::RegPtList(vec![8], 1), p(1, 8, None), p(2, 97, None), Op::RegPtList(vec![], 0), p(3, 97, None)],
    ]
}

/// Re-registration next to a closed, still-listed route: X, B, C register route-style (in every
/// order of B relative to X and C), X's receiver is dropped without any packet having been routed to
/// it, B re-registers on the SAME sender with a changed PT list / extra PT / MID / provisional flag,
/// then packets with unbound SSRCs and no RID/MID probe every payload type involved.  B's refresh
/// must land on B: a payload type only B lists must not reach C, C's own must still reach C.
fn stale_route_cases() -> Vec<Vec<Op>> {
    let p = |ssrc: u32, pt: u8| Op::Recv(Pkt { ssrc, pt, ext: None, raw: None });
    let (x, b, c) = (0usize, 1usize, 2usize);
    let first: Vec<Box<dyn Fn(usize, u8) -> Vec<Op>>> = vec![
        Box::new(|l, pt| vec![Op::RegPtList(vec![pt], l)]),
        Box::new(|l, pt| vec![Op::RegPt(pt, l)]),
        Box::new(|l, pt| vec![Op::RegMid(format!("m{}", l), l), Op::RegPtList(vec![pt], l)]),
        Box::new(|l, pt| vec![Op::RegProv(l), Op::RegPt(pt, l)]),
    ];
    let refresh: Vec<Vec<Op>> = vec![
        vec![Op::RegPtList(vec![98], b)],
        vec![Op::RegPtList(vec![98, 101], b)],
        vec![Op::RegPt(98, b)],
        vec![Op::RegMid("nb".into(), b), Op::RegPtList(vec![98], b)],
        vec![Op::RegProv(b)],
        vec![Op::RegPtList(vec![], b)],
    ];
    let orders: Vec<Vec<usize>> = vec![vec![x, b, c], vec![x, c, b], vec![b, x, c], vec![c, x, b], vec![x, b], vec![b, c, x]];
    let mut v = vec![];
    for (fi, f) in first.iter().enumerate() {
        for rf in &refresh {
            for ord in &orders {
                let mut ops = vec![Op::SetMidId(1)];
                for &l in ord {
                    ops.extend(f(l, [96u8, 97, 111][l]));   // X: 96, B: 97, C: 111
                }
                ops.push(Op::Close(x));
                ops.extend(rf.iter().cloned());
                let mut ssrc = 1000u32;
                for pt in [98u8, 101, 97, 111, 96, 8] {
                    ssrc += 1;
                    ops.push(p(ssrc, pt));
                    ops.push(Op::Probe(ssrc));
                }
                // the refreshed registration keeps working afterwards
                ops.push(Op::RegPt(8, b));
                ops.push(p(2000 + fi as u32, 8));
                v.push(ops);
            }
        }
    }
    v
}

/// slow consumers: small channel capacities, bursts towards few listeners, the consumer draining
/// now and then; closes of full channels; selection stages of every kind in front of a full channel
fn gen_slow_consumer(r: &mut Rng) -> (usize, Vec<Op>) {
    let cap = *r.pick(&[1usize, 1, 2, 3, 4]);
    let mut ops = vec![Op::SetMidId(1), Op::RegMid("a".into(), 0), Op::RegPtList(vec![96], 0), Op::RegSsrc(7, 0),
                       Op::RegMid("v".into(), 1), Op::RegPtList(vec![97], 1)];
    if r.chance(1, 2) { ops.push(Op::RegProv(2)); }
    let n = r.range(cap as u64 + 2, 4 * cap as u64 + 10);
    let mut ssrc = 100u32;
    for _ in 0..n {
        let k = r.below(20);
        ops.push(match k {
            0..=5 => Op::Recv(Pkt { ssrc: 7, pt: 96, ext: None, raw: None }),                       // SSRC map
            6..=8 => Op::Recv(Pkt { ssrc: 9, pt: 0, ext: mid_ext(1, "a"), raw: None }),             // MID (binds although full)
            9..=10 => { ssrc += 1; Op::Recv(Pkt { ssrc, pt: 97, ext: None, raw: None }) }           // unique PT (binds although full)
            11 => { ssrc += 1; Op::Recv(Pkt { ssrc, pt: 5, ext: None, raw: None }) }                // provisional / nothing
            12 => Op::Recv(Pkt { ssrc: 7, pt: 96, ext: mid_ext(1, "v"), raw: None }),
            13..=15 => Op::Drain(r.below(3) as usize),
            16 => Op::Probe(ssrc),
            17 => Op::Probe(9),
            18 => if r.chance(1, 3) { Op::Close(r.below(2) as usize) } else { Op::Drain(0) },
            _ => Op::Recv(Pkt { ssrc: 7, pt: 97, ext: None, raw: None }),
        });
    }
    ops.push(Op::Drain(0)); ops.push(Op::Drain(1)); ops.push(Op::Drain(2));
    (cap, ops)
}

/// exhaustive suffixes over a small alphabet after a fixed two-section prefix
fn alphabet() -> Vec<Op> {
    let p = |ssrc: u32, pt: u8, ext: Option<Ext>| Op::Recv(Pkt { ssrc, pt, ext, raw: None });
    vec![
        p(1, 96, None), p(2, 96, None), p(1, 111, None), p(2, 8, None),
        p(1, 96, mid_ext(1, "a")), p(2, 96, mid_ext(1, "v")), p(1, 96, mid_ext(1, "x")),
        p(2, 96, Some(Ext { two_byte: false, elems: vec![(2, b"h".to_vec()), (1, b"a".to_vec())] })),
        Op::Close(0), Op::Close(1), Op::RegProv(2), Op::RegSsrc(1, 1), Op::RegMid("a".into(), 2), Op::RegPt(111, 1), Op::Clear,
    ]
}

#[tokio::main(flavor = "current_thread")]
async fn main() {
    let args = parse_args();
    if std::env::var("C19_LOUD").is_err() { silence_panics(); }
    let mut out = Out::new(&args.out);
    let mut r = Rng::new(args.seed);
    let thorough = args.tier == "thorough";
    let mut stats: BTreeMap<String, u64> = BTreeMap::new();
    let mut all: Vec<(String, Vec<Op>)> = vec![];
    for ops in corpus() { all.push(("corpus".into(), ops)); }
    for ops in stale_route_cases() { all.push(("stale-route".into(), ops)); }
    let alpha = alphabet();
    let depth = if thorough { 4 } else { 3 };
    let mut idx = vec![0usize; depth];
    loop {
        let mut ops = vec![Op::SetMidId(1), Op::SetRidId(2), Op::RegMid("a".into(), 0), Op::RegPtList(vec![96, 111], 0),
                           Op::RegMid("v".into(), 1), Op::RegPtList(vec![96], 1), Op::RegRid("h".into(), 1)];
        for &i in &idx { ops.push(alpha[i].clone()); }
        ops.push(Op::Recv(Pkt { ssrc: 1, pt: 96, ext: None, raw: None }));
        ops.push(Op::Recv(Pkt { ssrc: 2, pt: 111, ext: None, raw: None }));
        all.push(("exhaustive".into(), ops));
        let mut k = 0;
        loop {
            if k == depth { break; }
            idx[k] += 1;
            if idx[k] < alpha.len() { break; }
            idx[k] = 0;
            k += 1;
        }
        if k == depth { break; }
    }
    let mut all: Vec<(String, usize, Vec<Op>)> = all.into_iter().map(|(k, ops)| (k, 64usize, ops)).collect();
    let nrand = if thorough { 20000 } else { 2500 };
    for _ in 0..nrand {
        let cap = *r.pick(&[1usize, 2, 3, 64, 64, 64]);
        all.push(("random".into(), cap, gen_case(&mut r, &mut stats, thorough)));
    }
    for _ in 0..(if thorough { 2000 } else { 400 }) {
        let (cap, ops) = gen_slow_consumer(&mut r);
        all.push(("slow-consumer".into(), cap, ops));
    }
    let mut delivered = 0u64;
    let mut dropped = 0u64;
    let mut full_drops = 0u64;
    for (kind, cap, ops) in all {
        let run = run_impl(cap, &ops).await;
        let fail = oracle(cap, &ops, &run);
        let nd = ops.iter().filter(|o| !matches!(o, Op::Drain(_))).count();   // (placeholder, recomputed below)
        let _ = nd;
        let mut nd = 0u64;
        { let mut oi = 0; for o in &ops { match o { Op::Recv(_) => { if !run.obs[oi].0.is_empty() { nd += 1; } oi += 1; } Op::Probe(_) | Op::Drain(_) => oi += 1, _ => {} } } }
        delivered += nd;
        dropped += ops.iter().filter(|o| matches!(o, Op::Recv(_))).count() as u64 - nd;
        if kind == "slow-consumer" { full_drops += ops.iter().filter(|o| matches!(o, Op::Recv(_))).count() as u64 - nd; }
        let term = format!("DemuxCase {} {} {}", cap, list_term(&ops.iter().map(op_term).collect::<Vec<_>>()),
            list_term(&run.obs.iter().map(|(g, b)| format!("({}, {})", zlist(g.iter().map(|x| *x as i128)), bool_term(*b))).collect::<Vec<_>>()));
        out.push(Case {
            term,
            desc: json!({"part": "demux", "channel_capacity": cap, "ops": ops.iter().map(op_json).collect::<Vec<_>>(),
                "impl_obs": run.obs.iter().map(|(g, b)| json!([g, b])).collect::<Vec<_>>() }),
            oracle_fail: fail,
            known: None,
            nontrivial: nd > 0,
            key: format!("{:?}", ops),
            kind: format!("demux-{}", kind),
        });
    }
    let bstats = bridge::run(&args, &mut r, &mut out).await;
    out.finish(json!({"generator": {"demux_op_kinds": stats, "demux_packets_delivered": delivered, "demux_packets_dropped": dropped, "slow_consumer_packets_not_delivered": full_drops, "bridge": bstats}}));
}
