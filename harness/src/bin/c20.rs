//! C20 — track sample queues (SpscRing + sample_track).
//!
//! (a) sequential correspondence: generated operation sequences (push / pop on the bare ring;
//!     try_send / send / send_many / clone / drop / recv / stop on a sample track), each
//!     operation run to completion before the next, every return value recorded and compared
//!     with the model (`Run/C20Run.v`), plus the number of payloads released by the final Drop;
//! (b) concurrent stress of the real code with one producer thread and one consumer thread and
//!     the direct oracle (order, no duplicate, bit-identical payload, end-of-stream after
//!     close, drop balance of the payload buffers);
//! (c) the same with 2..4 producer threads on cloned / shared sources, in a child process
//!     (a memory error must not take the harness down) — listed finding F22.
use bytes::Bytes;
use futures::FutureExt;
use std::future::Future;
use rustrtc::media::error::MediaError;
use rustrtc::media::frame::{AudioFrame, MediaKind, MediaSample};
use rustrtc::media::track::{sample_track, MediaStreamTrack, SampleStreamSource, SampleStreamTrack};
use rustrtc::media::SpscRing;
use serde_json::json;
use std::sync::atomic::{AtomicBool, AtomicU32, AtomicUsize, Ordering};
use std::sync::Arc;
use std::time::{Duration, Instant};
use vh::*;

#[path = "c20_sched/mod.rs"]
mod sched;
use rustrtc::verif_sched as vs;
use sched::{Shared, TState};

// ------------------------------------------------------------------------------ payloads
/// one counter per sample id: how often the payload buffer of that sample was released
struct Ledger {
    drops: Vec<AtomicU32>,
}
impl Ledger {
    fn new(n: usize) -> Arc<Self> {
        Arc::new(Ledger { drops: (0..n).map(|_| AtomicU32::new(0)).collect() })
    }
    fn total(&self) -> u64 {
        self.drops.iter().map(|d| d.load(Ordering::SeqCst) as u64).sum()
    }
    /// (never released, released more than once)
    fn imbalance(&self) -> (Vec<usize>, Vec<usize>) {
        let mut leak = vec![];
        let mut dbl = vec![];
        for (i, d) in self.drops.iter().enumerate() {
            match d.load(Ordering::SeqCst) {
                0 => leak.push(i),
                1 => {}
                _ => dbl.push(i),
            }
        }
        (leak, dbl)
    }
}
struct Owner {
    id: u32,
    bytes: [u8; 16],
    ledger: Arc<Ledger>,
}
impl AsRef<[u8]> for Owner {
    fn as_ref(&self) -> &[u8] {
        &self.bytes
    }
}
impl Drop for Owner {
    fn drop(&mut self) {
        if let Some(d) = self.ledger.drops.get(self.id as usize) {
            d.fetch_add(1, Ordering::SeqCst);
        }
    }
}
fn pattern(id: u32) -> [u8; 16] {
    let mut b = [0u8; 16];
    for k in 0..4 {
        b[4 * k..4 * k + 4].copy_from_slice(&(id ^ (0x9E37_79B9u32.wrapping_mul(k as u32))).to_le_bytes());
    }
    b
}
fn sample(id: u32, ledger: &Arc<Ledger>) -> MediaSample {
    MediaSample::Audio(AudioFrame {
        rtp_timestamp: id,
        clock_rate: 8000,
        data: Bytes::from_owner(Owner { id, bytes: pattern(id), ledger: ledger.clone() }),
        sequence_number: Some(id as u16),
        payload_type: Some(0),
        ..Default::default()
    })
}
/// id of a received sample, or a description of how it differs from every pushed sample
fn sample_id(s: &MediaSample) -> Result<u32, String> {
    match s {
        MediaSample::Audio(f) => {
            let id = f.rtp_timestamp;
            if f.data.as_ref() != pattern(id) || f.clock_rate != 8000 || f.sequence_number != Some(id as u16)
                || f.payload_type != Some(0) || f.marker || f.header_extension.is_some() || f.raw_packet.is_some()
            {
                Err(format!("received sample is not bit-identical to a pushed one: ts={} data={:02x?}", id, f.data.as_ref()))
            } else {
                Ok(id)
            }
        }
        MediaSample::Video(_) => Err("received a video sample on an audio track".into()),
    }
}
/// payload of the bare ring
struct Tracked {
    id: u32,
    check: u32,
    ledger: Arc<Ledger>,
}
impl Drop for Tracked {
    fn drop(&mut self) {
        if let Some(d) = self.ledger.drops.get(self.id as usize) {
            d.fetch_add(1, Ordering::SeqCst);
        }
    }
}
fn tracked(id: u32, ledger: &Arc<Ledger>) -> Tracked {
    Tracked { id, check: !id, ledger: ledger.clone() }
}

// ------------------------------------------------------------------------------ (a) sequential
#[derive(Clone, Debug)]
enum Act {
    Push(u32),
    Pop,
    TrySend(u32),
    Send(u32),
    SendMany(Vec<u32>),
    CloneSrc,
    DropSrc,
    Recv,
    Stop,
}
#[derive(Clone, Debug, PartialEq)]
enum Ret {
    PushOk,
    PushFull,
    TryOk,
    WouldBlock,
    Closed,
    SendOk,
    ManyOk,
    Pop(Option<u32>),
    Recv(u32),
    Eos,
    Pending,
    Cancelled,
    Bad(String),
}
fn act_term(a: &Act) -> String {
    match a {
        Act::Push(v) => format!("AP (OPush {})", v),
        Act::Pop => "AC OPop".into(),
        Act::TrySend(v) => format!("AP (OTrySend {})", v),
        Act::Send(v) => format!("AP (OSend {})", v),
        Act::SendMany(l) => format!("AP (OSendMany {})", zlist(l.iter().map(|x| *x as i128))),
        Act::CloneSrc => "AP OClone".into(),
        Act::DropSrc => "AP ODropSrc".into(),
        Act::Recv => "AC ORecv".into(),
        Act::Stop => "AStop".into(),
    }
}
fn ret_term(r: &Ret) -> String {
    match r {
        Ret::PushOk => "RPushOk".into(),
        Ret::PushFull => "RPushFull".into(),
        Ret::TryOk => "RTryOk".into(),
        Ret::WouldBlock => "RWouldBlock".into(),
        Ret::Closed => "RClosed".into(),
        Ret::SendOk => "RSendOk".into(),
        Ret::ManyOk => "RManyOk".into(),
        Ret::Pop(None) => "RPop None".into(),
        Ret::Pop(Some(v)) => format!("RPop (Some {})", v),
        Ret::Recv(v) => format!("RRecv {}", v),
        Ret::Eos => "REos".into(),
        Ret::Pending => "RPending".into(),
        Ret::Cancelled => "RCancelled".into(),
        Ret::Bad(_) => "RPending".into(), // never compared: a Bad result is an oracle failure
    }
}

struct SeqOut {
    crets: Vec<Ret>,
    prets: Vec<Ret>,
    dropped_by_ring: u64,
    oracle: Option<String>,
}

/// abstract FIFO the direct oracle tracks (written from the property text, not from the model):
/// what may be delivered next is the oldest sample that was accepted and not yet delivered/dropped
fn run_seq(cap: usize, acts: &[Act]) -> SeqOut {
    let nids = acts.iter().map(|a| match a {
        Act::Push(v) | Act::TrySend(v) | Act::Send(v) => *v as usize + 1,
        Act::SendMany(l) => l.iter().map(|v| *v as usize + 1).max().unwrap_or(0),
        _ => 0,
    }).max().unwrap_or(0);
    let ledger = Ledger::new(nids);
    let mut crets = vec![];
    let mut prets = vec![];
    // once the direct oracle has seen a violation the real object may be corrupt (e.g. a value
    // accepted into a full ring): stop driving it and leak it instead of running its Drop
    let oracle: std::cell::RefCell<Option<String>> = std::cell::RefCell::new(None);
    let fail = |m: String| {
        let mut o = oracle.borrow_mut();
        if o.is_none() {
            *o = Some(m);
        }
    };
    let raw = acts.iter().any(|a| matches!(a, Act::Push(_) | Act::Pop));
    // direct oracle state
    let mut fifo: std::collections::VecDeque<u32> = Default::default();
    let mut delivered: Vec<u32> = vec![];
    let dropped_by_ring;
    if raw {
        let ring: SpscRing<Tracked> = SpscRing::with_capacity(cap);
        for a in acts {
            if oracle.borrow().is_some() { break; }
            match a {
                Act::Push(v) => match ring.push(tracked(*v, &ledger)) {
                    Ok(()) => {
                        if fifo.len() >= cap {
                            fail(format!("push({}) accepted with {} samples queued (capacity {})", v, fifo.len(), cap));
                        }
                        fifo.push_back(*v);
                        prets.push(Ret::PushOk)
                    }
                    Err(t) => {
                        if fifo.len() < cap {
                            fail(format!("push({}) refused as full with {} of {} slots used", v, fifo.len(), cap));
                        }
                        if t.id != *v || t.check != !*v {
                            fail("push returned a different value in Err".into());
                        }
                        prets.push(Ret::PushFull)
                    }
                },
                Act::Pop => match ring.pop() {
                    Some(t) => {
                        if t.check != !t.id {
                            fail(format!("popped value corrupted: id={} check={}", t.id, t.check));
                        }
                        match fifo.pop_front() {
                            Some(e) if e == t.id => {}
                            e => fail(format!("pop returned {} but the oldest queued value is {:?}", t.id, e)),
                        }
                        delivered.push(t.id);
                        crets.push(Ret::Pop(Some(t.id)))
                    }
                    None => {
                        if !fifo.is_empty() {
                            fail(format!("pop returned None with {} values queued", fifo.len()));
                        }
                        crets.push(Ret::Pop(None))
                    }
                },
                _ => {}
            }
            if ring.len() != fifo.len() || ring.is_empty() != fifo.is_empty() {
                fail(format!("len()/is_empty() = {}/{} but {} values are queued", ring.len(), ring.is_empty(), fifo.len()));
            }
        }
        let before = ledger.total();
        if oracle.borrow().is_some() { std::mem::forget(ring); } else { drop(ring); }
        dropped_by_ring = ledger.total() - before;
        if dropped_by_ring != fifo.len() as u64 {
            fail(format!("Drop released {} payloads, {} were queued", dropped_by_ring, fifo.len()));
        }
    } else {
        let (source, track, _fb) = sample_track(MediaKind::Audio, cap);
        let mut handles: Vec<SampleStreamSource> = vec![source];
        let mut stopped = false;
        let mut eos_seen = false;
        // after the first send() on a full queue the overflow policy decides which sample is lost; the
        // property only demands order / no duplicate / only-sent, so from then on only that is checked
        // here (the exact drop-oldest behaviour is compared with the model)
        let mut lossy = false;
        let mut accepted: Vec<u32> = vec![];
        let mut last_delivered: Option<u32> = None;
        for a in acts {
            if oracle.borrow().is_some() { break; }
            match a {
                Act::TrySend(v) => {
                    let Some(h) = handles.first() else { continue };
                    match h.try_send(sample(*v, &ledger)) {
                        Ok(()) => {
                            if fifo.len() >= cap && !lossy {
                                fail(format!("try_send({}) accepted with a full queue", v));
                            }
                            fifo.push_back(*v);
                            accepted.push(*v);
                            prets.push(Ret::TryOk)
                        }
                        Err(MediaError::WouldBlock) => {
                            if fifo.len() < cap && !lossy {
                                fail(format!("try_send({}) = WouldBlock with {} of {} slots used", v, fifo.len(), cap));
                            }
                            prets.push(Ret::WouldBlock)
                        }
                        Err(MediaError::Closed) => {
                            fail("try_send = Closed on a live source handle".into());
                            prets.push(Ret::Closed)
                        }
                        Err(e) => prets.push(Ret::Bad(format!("{:?}", e))),
                    }
                }
                Act::Send(v) => {
                    let Some(h) = handles.first() else { continue };
                    match h.send(sample(*v, &ledger)) {
                        Ok(()) => {
                            if fifo.len() >= cap {
                                lossy = true;
                                fifo.pop_front(); // documented: drop-oldest
                            }
                            fifo.push_back(*v);
                            accepted.push(*v);
                            prets.push(Ret::SendOk)
                        }
                        Err(MediaError::Closed) => {
                            fail("send = Closed on a live source handle".into());
                            prets.push(Ret::Closed)
                        }
                        Err(e) => prets.push(Ret::Bad(format!("{:?}", e))),
                    }
                }
                Act::SendMany(l) => {
                    let Some(h) = handles.first() else { continue };
                    match h.send_many(l.iter().map(|v| sample(*v, &ledger)).collect::<Vec<_>>()) {
                        Ok(()) => {
                            for v in l {
                                if fifo.len() >= cap {
                                    lossy = true;
                                    fifo.pop_front();
                                }
                                fifo.push_back(*v);
                                accepted.push(*v);
                                prets.push(Ret::SendOk);
                            }
                            prets.push(Ret::ManyOk)
                        }
                        Err(e) => prets.push(Ret::Bad(format!("{:?}", e))),
                    }
                }
                Act::CloneSrc => {
                    if let Some(h) = handles.first() {
                        let c = h.clone();
                        handles.push(c);
                    }
                }
                Act::DropSrc => {
                    handles.pop();
                }
                Act::Stop => {
                    track.stop();
                    stopped = true;
                }
                Act::Recv => match track.recv().now_or_never() {
                    Some(Ok(s)) => match sample_id(&s) {
                        Ok(id) => {
                            if stopped {
                                fail(format!("recv delivered {} after stop()", id));
                            }
                            if !accepted.contains(&id) {
                                fail(format!("recv returned {} which was never accepted", id));
                            }
                            if let Some(l) = last_delivered { if l >= id { fail(format!("recv returned {} after {} (duplicate / reordered)", id, l)); } }
                            last_delivered = Some(id);
                            match fifo.pop_front() {
                                Some(e) if e == id => {}
                                e => if !lossy { fail(format!("recv returned {} but the oldest queued sample is {:?}", id, e)) },
                            }
                            delivered.push(id);
                            crets.push(Ret::Recv(id))
                        }
                        Err(m) => {
                            fail(m.clone());
                            crets.push(Ret::Bad(m))
                        }
                    },
                    Some(Err(MediaError::EndOfStream)) => {
                        if !stopped && !eos_seen && (!handles.is_empty() || (!fifo.is_empty() && !lossy)) {
                            fail(format!("end-of-stream with {} live source handles and {} samples queued", handles.len(), fifo.len()));
                        }
                        eos_seen = true;
                        crets.push(Ret::Eos)
                    }
                    Some(Err(e)) => crets.push(Ret::Bad(format!("{:?}", e))),
                    None => {
                        if (!fifo.is_empty() && !lossy) || handles.is_empty() || stopped {
                            fail(format!("recv pending with {} samples queued, {} source handles, stopped={}", fifo.len(), handles.len(), stopped));
                        }
                        crets.push(Ret::Pending)
                    }
                },
                _ => {}
            }
        }
        let before;
        if oracle.borrow().is_some() {
            std::mem::forget(handles); std::mem::forget(track); before = ledger.total();
        } else {
            drop(handles);
            before = ledger.total();
            drop(track);
        }
        drop(_fb);
        dropped_by_ring = ledger.total() - before;
        if dropped_by_ring != fifo.len() as u64 && !lossy {
            fail(format!("dropping the track released {} payloads, {} were queued", dropped_by_ring, fifo.len()));
        }
    }
    // drop balance: every payload created was released exactly once by now
    let (leak, dbl) = ledger.imbalance();
    let created: std::collections::BTreeSet<usize> = acts.iter().flat_map(|a| match a {
        Act::Push(v) | Act::TrySend(v) | Act::Send(v) => vec![*v as usize],
        Act::SendMany(l) => l.iter().map(|v| *v as usize).collect(),
        _ => vec![],
    }).collect();
    let leaked: Vec<_> = leak.into_iter().filter(|i| created.contains(i)).collect();
    if (!leaked.is_empty() && oracle.borrow().is_none()) || !dbl.is_empty() {
        fail(format!("payload drop balance: never released {:?}, released twice {:?}", leaked, dbl));
    }
    for r in crets.iter().chain(prets.iter()) {
        if let Ret::Bad(m) = r {
            fail(format!("unexpected result {}", m));
        }
    }
    let _ = delivered;
    let oracle = oracle.into_inner();
    SeqOut { crets, prets, dropped_by_ring, oracle }
}

fn gen_seq(rng: &mut Rng, cap: usize, raw: bool, len: usize) -> Vec<Act> {
    let mut acts = vec![];
    let mut next = 0u32;
    let mut fresh = || {
        next += 1;
        next - 1
    };
    let mut handles = 1usize;
    let mut queued = 0usize; // generator-side estimate, only used to aim at the full / empty boundaries
    let style = rng.below(4); // 0 balanced, 1 producer-heavy (overflow), 2 consumer-heavy (empty), 3 bursts of cap±1
    let mut i = 0;
    while i < len {
        i += 1;
        let pw = match style { 1 => 7, 2 => 3, _ => 5 };
        if raw {
            if style == 3 && rng.chance(1, 4) {
                let k = (cap as i64 + rng.range(0, 2) as i64 - 1).max(0) as usize;
                for _ in 0..k { acts.push(Act::Push(fresh())); }
                let k2 = (cap as i64 + rng.range(0, 2) as i64 - 1).max(0) as usize;
                for _ in 0..k2 { acts.push(Act::Pop); }
                continue;
            }
            if rng.below(10) < pw { acts.push(Act::Push(fresh())); } else { acts.push(Act::Pop); }
            continue;
        }
        if handles == 0 {
            acts.push(Act::Recv);
            continue;
        }
        if style == 3 && rng.chance(1, 4) {
            let k = (cap as i64 + rng.range(0, 2) as i64 - 1).max(0) as usize;
            match rng.below(3) {
                0 => for _ in 0..k { acts.push(Act::TrySend(fresh())); },
                1 => for _ in 0..k { acts.push(Act::Send(fresh())); },
                _ => { let l: Vec<u32> = (0..k).map(|_| fresh()).collect(); acts.push(Act::SendMany(l)); }
            }
            queued = (queued + k).min(cap);
            let k2 = (queued as i64 + rng.range(0, 2) as i64 - 1).max(0) as usize;
            for _ in 0..k2 { acts.push(Act::Recv); }
            queued = queued.saturating_sub(k2);
            continue;
        }
        let r = rng.below(100);
        if r < pw * 10 {
            match rng.below(10) {
                0..=3 => acts.push(Act::Send(fresh())),
                4..=7 => acts.push(Act::TrySend(fresh())),
                _ => { let k = rng.range(0, 4) as usize; let l: Vec<u32> = (0..k).map(|_| fresh()).collect(); acts.push(Act::SendMany(l)); }
            }
            queued = (queued + 1).min(cap);
        } else if r < 90 {
            acts.push(Act::Recv);
            queued = queued.saturating_sub(1);
        } else if r < 94 {
            acts.push(Act::CloneSrc);
            handles += 1;
        } else if r < 98 {
            acts.push(Act::DropSrc);
            handles -= 1;
        } else {
            acts.push(Act::Stop);
        }
    }
    // epilogue: usually close and drain (final drained contents are compared value by value)
    if raw {
        if rng.chance(3, 4) { for _ in 0..rng.range(0, cap as u64 + 1) { acts.push(Act::Pop); } }
    } else {
        if rng.chance(4, 5) { for _ in 0..handles { acts.push(Act::DropSrc); } handles = 0; }
        if rng.chance(3, 4) { for _ in 0..(cap + 2).min(70) { acts.push(Act::Recv); } }
        let _ = handles;
    }
    acts
}

fn seq_case(out: &mut Out, cap: usize, acts: Vec<Act>, kind: &str) {
    let r = match catch(std::panic::AssertUnwindSafe(|| run_seq(cap, &acts))) {
        Ok(r) => r,
        Err(p) => SeqOut { crets: vec![], prets: vec![], dropped_by_ring: 0, oracle: Some(format!("panic: {}", p)) },
    };
    let term = format!(
        "mkCase {} {} {} {} {}",
        cap,
        list_term(&acts.iter().map(act_term).collect::<Vec<_>>()),
        list_term(&r.crets.iter().map(ret_term).collect::<Vec<_>>()),
        list_term(&r.prets.iter().map(ret_term).collect::<Vec<_>>()),
        r.dropped_by_ring
    );
    let nontrivial = r.crets.iter().any(|x| matches!(x, Ret::Recv(_) | Ret::Pop(Some(_))))
        && r.prets.iter().any(|x| matches!(x, Ret::PushFull | Ret::WouldBlock)) || r.dropped_by_ring > 0
        || r.crets.iter().any(|x| matches!(x, Ret::Eos));
    let key = format!("{}|{:?}", cap, acts);
    out.push(Case {
        term,
        desc: json!({"capacity": cap, "ops": acts.iter().map(|a| format!("{:?}", a)).collect::<Vec<_>>(),
                     "consumer_results": r.crets.iter().map(|x| format!("{:?}", x)).collect::<Vec<_>>(),
                     "producer_results": r.prets.iter().map(|x| format!("{:?}", x)).collect::<Vec<_>>(),
                     "released_by_final_drop": r.dropped_by_ring}),
        oracle_fail: r.oracle,
        known: None,
        nontrivial,
        key,
        kind: kind.into(),
    });
}

// ------------------------------------------------------------------------------ (b)/(c) concurrent
fn block_on<F: std::future::Future>(f: F) -> F::Output {
    tokio::runtime::Builder::new_current_thread().enable_time().build().unwrap().block_on(f)
}

#[derive(Clone, Copy, Debug, PartialEq)]
enum Mode {
    /// try_send, retried until accepted: nothing may be lost
    Lossless,
    /// send (drop-oldest), send_many and try_send without retry: samples may be lost, never reordered / duplicated
    Lossy,
}

struct StressCfg {
    cap: usize,
    producers: usize,
    per_producer: u32,
    mode: Mode,
    shared: bool, // producers share one handle (Arc) instead of owning a clone each
    stop_after: Option<u32>, // a controller calls stop() once this many samples were received
    seed: u64,
}

/// returns the violations of the property observed on the real code
fn stress_track(cfg: &StressCfg) -> (Vec<String>, serde_json::Value) {
    let total = cfg.producers as u32 * cfg.per_producer;
    let ledger = Ledger::new(total as usize);
    let (source, track, fb) = sample_track(MediaKind::Audio, cfg.cap);
    let accepted: Arc<Vec<AtomicBool>> = Arc::new((0..total).map(|_| AtomicBool::new(false)).collect());
    // try_send consumes the sample even when it answers WouldBlock: every refused attempt releases one more buffer of that id
    let refused: Arc<Vec<AtomicU32>> = Arc::new((0..total).map(|_| AtomicU32::new(0)).collect());
    let received_n = Arc::new(AtomicUsize::new(0));
    let mut joins = vec![];
    let shared = Arc::new(source);
    let mut owned: Vec<SampleStreamSource> = vec![];
    if !cfg.shared {
        for _ in 0..cfg.producers {
            owned.push((*shared).clone());
        }
    }
    let start = Arc::new(std::sync::Barrier::new(cfg.producers + 1));
    for p in 0..cfg.producers {
        let ledger = ledger.clone();
        let accepted = accepted.clone();
        let refused = refused.clone();
        let start = start.clone();
        let mode = cfg.mode;
        let per = cfg.per_producer;
        let own = if cfg.shared { None } else { owned.pop() };
        let sh = if cfg.shared { Some(shared.clone()) } else { None };
        let mut rng = Rng::new(cfg.seed ^ (p as u64 + 1) * 0x1234_5678);
        joins.push(std::thread::spawn(move || {
            let src: &SampleStreamSource = match (&own, &sh) {
                (Some(o), _) => o,
                (_, Some(s)) => s,
                _ => unreachable!(),
            };
            start.wait();
            let mut i = 0u32;
            while i < per {
                let id = p as u32 * per + i;
                match mode {
                    Mode::Lossless => loop {
                        match src.try_send(sample(id, &ledger)) {
                            Ok(()) => {
                                accepted[id as usize].store(true, Ordering::SeqCst);
                                break;
                            }
                            Err(MediaError::WouldBlock) => {
                                refused[id as usize].fetch_add(1, Ordering::SeqCst);
                                std::thread::yield_now()
                            }
                            Err(e) => panic!("try_send: {:?}", e),
                        }
                    },
                    Mode::Lossy => match rng.below(8) {
                        0..=3 => src.send(sample(id, &ledger)).expect("send"),
                        4..=5 => {
                            let _ = src.try_send(sample(id, &ledger));
                        }
                        6 => {
                            let k = (rng.range(1, 5) as u32).min(per - i);
                            src.send_many((0..k).map(|j| sample(id + j, &ledger)).collect::<Vec<_>>()).expect("send_many");
                            i += k - 1;
                        }
                        _ => {
                            let c = src.clone();
                            c.send(sample(id, &ledger)).expect("send");
                            drop(c);
                        }
                    },
                }
                i += 1;
                if rng.chance(1, 64) {
                    std::thread::yield_now();
                }
            }
            // `own` (the handle) is dropped here
        }));
    }
    drop(shared); // with owned clones this is the original handle; with `shared` the threads hold the Arc
    let stopper = cfg.stop_after.map(|n| {
        let t = track.clone();
        let rn = received_n.clone();
        std::thread::spawn(move || {
            let t0 = Instant::now();
            while rn.load(Ordering::SeqCst) < n as usize && t0.elapsed() < Duration::from_secs(10) {
                std::thread::yield_now();
            }
            t.stop();
        })
    });
    let t2 = track.clone();
    let rn = received_n.clone();
    let consumer = std::thread::spawn(move || {
        let mut got: Vec<Result<u32, String>> = vec![];
        let mut end: &'static str = "eos";
        block_on(async {
            loop {
                match tokio::time::timeout(Duration::from_secs(4), t2.recv()).await {
                    Ok(Ok(s)) => {
                        got.push(sample_id(&s));
                        rn.fetch_add(1, Ordering::SeqCst);
                    }
                    Ok(Err(MediaError::EndOfStream)) => break,
                    Ok(Err(_)) => {
                        end = "error";
                        break;
                    }
                    Err(_) => {
                        end = "timeout";
                        break;
                    }
                }
            }
        });
        (got, end)
    });
    start.wait();
    let mut viol = vec![];
    for j in joins {
        if j.join().is_err() {
            viol.push("a producer thread panicked".to_string());
        }
    }
    let (got, end) = consumer.join().unwrap_or((vec![], "consumer panicked"));
    if let Some(s) = stopper {
        let _ = s.join();
    }
    let stopped = cfg.stop_after.is_some();
    if end != "eos" {
        viol.push(format!("consumer did not observe end-of-stream after every source was dropped ({}; {} samples received)", end, got.len()));
    }
    // order / duplicates / integrity
    let mut last: Vec<Option<u32>> = vec![None; cfg.producers];
    let mut seen = vec![false; total as usize];
    for g in &got {
        match g {
            Err(m) => viol.push(m.clone()),
            Ok(id) if *id >= total => viol.push(format!("received unknown sample id {}", id)),
            Ok(id) => {
                let p = (*id / cfg.per_producer) as usize;
                if seen[*id as usize] {
                    viol.push(format!("sample {} (producer {}) received twice", id, p));
                }
                seen[*id as usize] = true;
                if let Some(l) = last[p] {
                    if l >= *id {
                        viol.push(format!("producer {}: sample {} received after sample {}", p, id, l));
                    }
                }
                last[p] = Some(*id);
            }
        }
    }
    if cfg.mode == Mode::Lossless && !stopped && end == "eos" {
        let missing: Vec<u32> = (0..total).filter(|i| accepted[*i as usize].load(Ordering::SeqCst) && !seen[*i as usize]).collect();
        if !missing.is_empty() {
            viol.push(format!("{} accepted samples were never delivered before end-of-stream (first {:?})", missing.len(), &missing[..missing.len().min(5)]));
        }
    }
    // release everything, then the payload drop balance
    drop(got);
    drop(track);
    drop(fb);
    let mut leak = vec![];
    let mut dbl = vec![];
    for i in 0..total as usize {
        let want = 1 + refused[i].load(Ordering::SeqCst);
        let have = ledger.drops[i].load(Ordering::SeqCst);
        if have < want { leak.push(i) } else if have > want { dbl.push(i) }
    }
    if !leak.is_empty() {
        viol.push(format!("{} payload buffers were never released (first {:?})", leak.len(), &leak[..leak.len().min(5)]));
    }
    if !dbl.is_empty() {
        viol.push(format!("{} payload buffers were released more than once (first {:?})", dbl.len(), &dbl[..dbl.len().min(5)]));
    }
    viol.truncate(8);
    let info = json!({"capacity": cfg.cap, "producers": cfg.producers, "per_producer": cfg.per_producer,
                      "mode": format!("{:?}", cfg.mode), "shared_handle": cfg.shared, "stop_after": cfg.stop_after,
                      "received": seen.iter().filter(|x| **x).count(), "end": end, "seed": cfg.seed});
    (viol, info)
}

fn stress_ring(cap: usize, n: u32) -> (Vec<String>, serde_json::Value) {
    let ledger = Ledger::new(n as usize);
    let ring: Arc<SpscRing<Tracked>> = Arc::new(SpscRing::with_capacity(cap));
    let r1 = ring.clone();
    let l1 = ledger.clone();
    let fulls = Arc::new(AtomicUsize::new(0));
    let f1 = fulls.clone();
    let prod = std::thread::spawn(move || {
        for id in 0..n {
            let mut t = tracked(id, &l1);
            loop {
                match r1.push(t) {
                    Ok(()) => break,
                    Err(back) => {
                        f1.fetch_add(1, Ordering::Relaxed);
                        t = back;
                        std::hint::spin_loop();
                    }
                }
            }
        }
    });
    let r2 = ring.clone();
    let cons = std::thread::spawn(move || {
        let mut got = Vec::with_capacity(n as usize);
        let t0 = Instant::now();
        while got.len() < n as usize && t0.elapsed() < Duration::from_secs(20) {
            match r2.pop() {
                Some(t) => got.push((t.id, t.check)),
                None => std::hint::spin_loop(),
            }
        }
        got
    });
    let mut viol = vec![];
    if prod.join().is_err() {
        viol.push("producer panicked".into());
    }
    let got = cons.join().unwrap_or_default();
    if got.len() != n as usize {
        viol.push(format!("popped {} of {} pushed values", got.len(), n));
    }
    for (i, (id, check)) in got.iter().enumerate() {
        if *id != i as u32 || *check != !*id {
            viol.push(format!("pop #{} returned id {} (check {:#x}): popped sequence is not a prefix of the pushed one", i, id, check));
            break;
        }
    }
    drop(ring);
    let (leak, dbl) = ledger.imbalance();
    if !leak.is_empty() || !dbl.is_empty() {
        viol.push(format!("drop balance: {} never released, {} released twice", leak.len(), dbl.len()));
    }
    (viol, json!({"capacity": cap, "values": n, "full_retries": fulls.load(Ordering::Relaxed)}))
}


/// pipeline queue shared by several producer threads (`&SampleQueueSender` is Sync; e.g. two media
/// pumps feeding one `Arc<ChannelMediaSink>`): lossless try_send, one consumer
fn stress_pipe_mpsc(cap: usize, producers: usize, per: u32) -> (Vec<String>, serde_json::Value) {
    use rustrtc::media::pipeline::{ChannelMediaSource, MediaSource};
    let total = producers as u32 * per;
    let ledger = Ledger::new(total as usize);
    let (tx, mut rx) = ChannelMediaSource::channel(MediaKind::Audio, cap);
    let tx = Arc::new(tx);
    let refused: Arc<Vec<AtomicU32>> = Arc::new((0..total).map(|_| AtomicU32::new(0)).collect());
    let mut joins = vec![];
    for p in 0..producers {
        let (tx, ledger, refused) = (tx.clone(), ledger.clone(), refused.clone());
        joins.push(std::thread::spawn(move || {
            for i in 0..per {
                let id = p as u32 * per + i;
                loop {
                    match tx.try_send(sample(id, &ledger)) {
                        Ok(()) => break,
                        Err(_) => { refused[id as usize].fetch_add(1, Ordering::SeqCst); std::thread::yield_now(); }
                    }
                }
            }
        }));
    }
    drop(tx);
    let consumer = std::thread::spawn(move || {
        let mut got: Vec<Result<u32, String>> = vec![];
        let mut end = "eos";
        block_on(async {
            loop {
                match tokio::time::timeout(Duration::from_secs(4), rx.next_sample()).await {
                    Ok(Ok(s)) => got.push(sample_id(&s)),
                    Ok(Err(_)) => break,
                    Err(_) => { end = "timeout"; break; }
                }
            }
        });
        (got, end)
    });
    let mut viol = vec![];
    for j in joins { if j.join().is_err() { viol.push("a producer thread panicked".to_string()); } }
    let (got, end) = consumer.join().unwrap_or((vec![], "consumer panicked"));
    if end != "eos" { viol.push(format!("no end-of-stream after the sender was dropped ({}; {} received)", end, got.len())); }
    let mut seen = vec![false; total as usize];
    let mut last: Vec<Option<u32>> = vec![None; producers];
    for g in &got {
        match g {
            Err(m) => viol.push(m.clone()),
            Ok(id) if *id >= total => viol.push(format!("unknown sample {}", id)),
            Ok(id) => {
                let p = (*id / per) as usize;
                if seen[*id as usize] { viol.push(format!("sample {} received twice", id)); }
                seen[*id as usize] = true;
                if let Some(l) = last[p] { if l >= *id { viol.push(format!("producer {}: {} after {}", p, id, l)); } }
                last[p] = Some(*id);
            }
        }
    }
    let missing = seen.iter().filter(|x| !**x).count();
    if missing > 0 && end == "eos" { viol.push(format!("{} accepted samples never delivered", missing)); }
    drop(got);
    let mut dbl = 0; let mut leak = 0;
    for i in 0..total as usize {
        let want = 1 + refused[i].load(Ordering::SeqCst);
        let have = ledger.drops[i].load(Ordering::SeqCst);
        if have < want { leak += 1 } else if have > want { dbl += 1 }
    }
    if leak > 0 || dbl > 0 { viol.push(format!("payload drop balance: {} never released, {} released twice", leak, dbl)); }
    viol.truncate(6);
    (viol, json!({"queue": "pipeline", "capacity": cap, "producers": producers, "per_producer": per, "end": end}))
}

fn conc_case(out: &mut Out, viol: Vec<String>, info: serde_json::Value, kind: &str, known_class: Option<&str>) {
    let failed = !viol.is_empty();
    out.push(Case {
        term: "-".into(),
        desc: json!({"run": info, "violations": viol}),
        oracle_fail: if failed && known_class.is_none() { Some(viol.join("; ")) } else { None },
        known: if failed { known_class.map(|s| s.to_string()) } else { None },
        nontrivial: true,
        key: format!("{}|{}", kind, info),
        kind: kind.into(),
    });
}

/// (c) runs in a child process: `c20 --child-mpsc <cap> <producers> <per> <mode> <shared> <seed>`
fn child_mpsc(args: &[String]) -> ! {
    let cfg = StressCfg {
        cap: args[0].parse().unwrap(),
        producers: args[1].parse().unwrap(),
        per_producer: args[2].parse().unwrap(),
        mode: if args[3] == "lossless" { Mode::Lossless } else { Mode::Lossy },
        shared: args[4] == "shared",
        stop_after: None,
        seed: args[5].parse().unwrap(),
    };
    let (viol, info) = if args.get(6).map(|x| x == "pipe").unwrap_or(false) { stress_pipe_mpsc(cfg.cap, cfg.producers, cfg.per_producer) } else { stress_track(&cfg) };
    println!("{}", json!({"violations": viol, "info": info}));
    std::process::exit(0)
}

fn run_child_mpsc(cap: usize, producers: usize, per: u32, mode: Mode, shared: bool, seed: u64, pipe: bool) -> (Vec<String>, serde_json::Value) {
    let exe = std::env::current_exe().unwrap();
    let mut child = std::process::Command::new(exe)
        .args(["--child-mpsc", &cap.to_string(), &producers.to_string(), &per.to_string(),
               if mode == Mode::Lossless { "lossless" } else { "lossy" }, if shared { "shared" } else { "cloned" }, &seed.to_string(),
               if pipe { "pipe" } else { "track" }])
        .stdout(std::process::Stdio::piped())
        .stderr(std::process::Stdio::null())
        .spawn()
        .expect("spawn child");
    let t0 = Instant::now();
    let info = json!({"queue": if pipe { "pipeline" } else { "track" }, "capacity": cap, "producers": producers, "per_producer": per, "mode": format!("{:?}", mode), "shared_handle": shared, "seed": seed});
    loop {
        match child.try_wait() {
            Ok(Some(status)) => {
                let mut s = String::new();
                use std::io::Read;
                if let Some(mut o) = child.stdout.take() {
                    let _ = o.read_to_string(&mut s);
                }
                if !status.success() {
                    return (vec![format!("child process died: {} (memory error / abort)", status)], info);
                }
                let v: serde_json::Value = s.lines().last().and_then(|l| serde_json::from_str(l).ok()).unwrap_or(json!({}));
                let viol = v["violations"].as_array().map(|a| a.iter().map(|x| x.as_str().unwrap_or("").to_string()).collect()).unwrap_or_else(|| vec!["child produced no report".to_string()]);
                return (viol, v["info"].clone());
            }
            Ok(None) => {
                if t0.elapsed() > Duration::from_secs(25) {
                    let _ = child.kill();
                    let _ = child.wait();
                    return (vec!["child process hung for 25 s (killed)".to_string()], info);
                }
                std::thread::sleep(Duration::from_millis(20));
            }
            Err(e) => return (vec![format!("wait: {}", e)], info),
        }
    }
}


// ------------------------------------------------------------------------------ (d) schedule replay on real threads (hook H2)
/// yield id of the producer-side lock (F22 repair); mirrors rustrtc::verif_sched::SRC_PUSH_LOCK
const SRC_PUSH_LOCK: u32 = 28;

#[derive(Clone, Debug)]
enum POp {
    Push(u32),
    TrySend(u32),
    Send(u32),
    SendMany(Vec<u32>),
    CloneSrc,
    DropSrc,
    /// pipeline queue: drop of the (only) SampleQueueSender
    DropTx,
}
#[derive(Clone, Debug, PartialEq)]
enum COp {
    Pop,
    Recv,
    /// recv() whose future is dropped (cancelled) when it is scheduled while pending at its await
    RecvCancel,
    /// pipeline queue: SampleQueueReceiver::recv (through ChannelMediaSource::next_sample)
    RecvQ,
    RecvQCancel,
}
#[derive(Clone, Copy, Debug, PartialEq)]
enum QKind {
    Ring,
    Track,
    Pipe,
}
#[derive(Clone, Debug)]
struct ConcCase {
    cap: usize,
    cprog: Vec<COp>,
    nstop: usize,
    pprogs: Vec<Vec<POp>>,
    plan: Vec<usize>,
}
impl ConcCase {
    fn kind(&self) -> QKind {
        if self.cprog.iter().any(|o| matches!(o, COp::RecvQ | COp::RecvQCancel)) || self.pprogs.iter().flatten().any(|o| matches!(o, POp::DropTx)) { QKind::Pipe }
        else if self.cprog.iter().any(|o| matches!(o, COp::Pop)) || self.pprogs.iter().flatten().any(|o| matches!(o, POp::Push(_))) { QKind::Ring }
        else { QKind::Track }
    }
}
struct ConcOut {
    sched: Vec<usize>,
    crets: Vec<Ret>,
    prets: Vec<Vec<Ret>>,
    viol: Vec<String>,
    broken: Option<String>,
}
fn pop_term(o: &POp) -> String {
    match o {
        POp::Push(v) => format!("OPush {}", v),
        POp::TrySend(v) => format!("OTrySend {}", v),
        POp::Send(v) => format!("OSend {}", v),
        POp::SendMany(l) => format!("OSendMany {}", zlist(l.iter().map(|x| *x as i128))),
        POp::CloneSrc => "OClone".into(),
        POp::DropSrc => "ODropSrc".into(),
        POp::DropTx => "ODropTx".into(),
    }
}
fn cop_term(o: &COp) -> String {
    match o {
        COp::Pop => "OPop".into(), COp::Recv => "ORecv".into(), COp::RecvCancel => "ORecvC".into(),
        COp::RecvQ => "ORecvQ".into(), COp::RecvQCancel => "ORecvQC".into(),
    }
}
fn pop_vals(o: &POp) -> Vec<u32> {
    match o { POp::Push(v) | POp::TrySend(v) | POp::Send(v) => vec![*v], POp::SendMany(l) => l.clone(), _ => vec![] }
}

fn flag_waker(sh: Arc<Shared>, t: usize) -> std::task::Waker {
    struct W(Arc<Shared>, usize);
    impl std::task::Wake for W {
        fn wake(self: Arc<Self>) { self.0.wake(self.1) }
        fn wake_by_ref(self: &Arc<Self>) { self.0.wake(self.1) }
    }
    std::task::Waker::from(Arc::new(W(sh, t)))
}

/// drive one future on the consumer worker; Err(()) = the run is being shut down
fn drive<T>(sh: &Arc<Shared>, fut: std::pin::Pin<&mut (dyn Future<Output = T> + Send + '_)>, cancelable: bool) -> Result<Option<T>, ()> {
    let waker = flag_waker(sh.clone(), 0);
    let mut cx = std::task::Context::from_waker(&waker);
    let mut fut = fut;
    loop {
        match fut.as_mut().poll(&mut cx) {
            std::task::Poll::Ready(v) => return Ok(Some(v)),
            std::task::Poll::Pending => match sh.park_pending(0, cancelable) {
                sched::Parked::Resume => {}
                sched::Parked::Cancel => return Ok(None),
                sched::Parked::Abort => return Err(()),
            },
        }
    }
}

fn run_conc(case: &ConcCase) -> ConcOut {
    use rustrtc::media::pipeline::{ChannelMediaSource, MediaSource};
    use std::sync::Mutex;
    let np = case.pprogs.len();
    let nthreads = 2 + np;
    let kind = case.kind();
    let max_id = case.pprogs.iter().flatten().flat_map(pop_vals).map(|v| v as usize + 1).max().unwrap_or(0);
    let ledger = Ledger::new(max_id);
    let shared = Shared::new(nthreads);
    let results: Arc<Vec<Mutex<Vec<Ret>>>> = Arc::new((0..nthreads).map(|_| Mutex::new(vec![])).collect());
    let ring: Arc<SpscRing<Tracked>> = Arc::new(SpscRing::with_capacity(case.cap));
    let (source, track, fb) = sample_track(MediaKind::Audio, case.cap);
    let (qtx, qrx) = ChannelMediaSource::channel(MediaKind::Audio, case.cap);
    let mut qtx = Some(qtx);
    let mut sources = vec![];
    for _ in 1..np { sources.push(source.clone()); } // no hook on this thread: plain fetch_add
    sources.push(source);
    let mut joins = vec![];
    // consumer
    {
        let (sh, res, ring, track, prog) = (shared.clone(), results.clone(), ring.clone(), track.clone(), case.cprog.clone());
        let mut qrx = qrx;
        joins.push(std::thread::spawn(move || {
            sh.install_hook(0);
            while let Some(i) = sh.next_cmd(0) {
                let r: Result<Ret, ()> = match prog[i] {
                    COp::Pop => Ok(match ring.pop() { Some(t) => if t.check == !t.id { Ret::Pop(Some(t.id)) } else { Ret::Bad(format!("corrupted value id={}", t.id)) }, None => Ret::Pop(None) }),
                    COp::Recv | COp::RecvCancel => {
                        let mut fut = track.recv();
                        drive(&sh, fut.as_mut(), prog[i] == COp::RecvCancel).map(|o| match o {
                            None => Ret::Cancelled,
                            Some(Ok(s)) => match sample_id(&s) { Ok(id) => Ret::Recv(id), Err(m) => Ret::Bad(m) },
                            Some(Err(MediaError::EndOfStream)) => Ret::Eos,
                            Some(Err(e)) => Ret::Bad(format!("{:?}", e)),
                        })
                    }
                    COp::RecvQ | COp::RecvQCancel => {
                        let mut fut = qrx.next_sample();
                        drive(&sh, fut.as_mut(), prog[i] == COp::RecvQCancel).map(|o| match o {
                            None => Ret::Cancelled,
                            Some(Ok(s)) => match sample_id(&s) { Ok(id) => Ret::Recv(id), Err(m) => Ret::Bad(m) },
                            Some(Err(MediaError::EndOfStream)) => Ret::Eos,
                            Some(Err(e)) => Ret::Bad(format!("{:?}", e)),
                        })
                    }
                };
                match r {
                    Ok(r) => res[0].lock().unwrap().push(r),
                    Err(()) => { vs::set_hook(None); return; }
                }
                sh.op_done(0);
            }
            vs::set_hook(None);
        }));
    }
    // controller thread calling stop()
    {
        let (sh, track) = (shared.clone(), track.clone());
        joins.push(std::thread::spawn(move || {
            sh.install_hook(1);
            while let Some(_) = sh.next_cmd(1) {
                track.stop();
                sh.op_done(1);
            }
            vs::set_hook(None);
        }));
    }
    for k in 0..np {
        let (sh, res, ring, prog, ledger) = (shared.clone(), results.clone(), ring.clone(), case.pprogs[k].clone(), ledger.clone());
        let src = sources.pop().unwrap();
        let mut tx = if k == 0 { qtx.take() } else { None };
        joins.push(std::thread::spawn(move || {
            let t = 2 + k;
            let mut handles = vec![src];
            sh.install_hook(t);
            while let Some(i) = sh.next_cmd(t) {
                let pipe = tx.is_some() && kind == QKind::Pipe;
                let mut rs: Vec<Ret> = vec![];
                match &prog[i] {
                    POp::Push(v) => rs.push(match ring.push(tracked(*v, &ledger)) { Ok(()) => Ret::PushOk, Err(_) => Ret::PushFull }),
                    POp::TrySend(v) if pipe => rs.push(match tx.as_ref().unwrap().try_send(sample(*v, &ledger)) { Ok(()) => Ret::TryOk, Err(_) => Ret::WouldBlock }),
                    POp::Send(v) if pipe => rs.push(match tx.as_ref().unwrap().send(sample(*v, &ledger)) { Ok(()) => Ret::SendOk, Err(()) => Ret::Closed }),
                    POp::TrySend(v) => rs.push(match handles[0].try_send(sample(*v, &ledger)) {
                        Ok(()) => Ret::TryOk, Err(MediaError::WouldBlock) => Ret::WouldBlock, Err(MediaError::Closed) => Ret::Closed, Err(e) => Ret::Bad(format!("{:?}", e)) }),
                    POp::Send(v) => rs.push(match handles[0].send(sample(*v, &ledger)) {
                        Ok(()) => Ret::SendOk, Err(MediaError::Closed) => Ret::Closed, Err(e) => Ret::Bad(format!("{:?}", e)) }),
                    POp::SendMany(l) => match handles[0].send_many(l.iter().map(|v| sample(*v, &ledger)).collect::<Vec<_>>()) {
                        Ok(()) => { for _ in l { rs.push(Ret::SendOk); } rs.push(Ret::ManyOk); }
                        Err(e) => rs.push(Ret::Bad(format!("send_many: {:?}", e))),
                    },
                    POp::CloneSrc => { let c = handles[0].clone(); handles.push(c); }
                    POp::DropSrc => { handles.pop(); }
                    POp::DropTx => { tx = None; }
                };
                res[t].lock().unwrap().extend(rs);
                sh.op_done(t);
            }
            vs::set_hook(None);
            drop(handles);
            drop(tx);
        }));
    }
    drop(sources);
    drop(qtx);

    // ---- controller
    let mut sched = vec![];
    let mut next_op = vec![0usize; nthreads];
    let mut handles = vec![1i32; np];
    let mut c_lock = false;
    let mut p_lock = vec![false; np];
    let mut push_held: Option<usize> = None;      // producer inside the producer-side lock (F22 repair)
    let mut many_seen = vec![0usize; np];          // closed checks seen inside the running send_many
    let (mut tail_stores, mut head_stores) = (0u64, 0u64);
    let mut broken: Option<String> = None;
    let mut viol: Vec<String> = vec![];
    let mut eos_checked = 0usize;
    let mut eos_seen = false;
    let nops = |t: usize| -> usize { if t == 0 { case.cprog.len() } else if t == 1 { case.nstop } else { case.pprogs[t - 2].len() } };
    let is_lock_id = |id: u32| id == vs::RECV_LOCK || id == vs::Q_LOCK;
    let is_unlock_id = |id: u32| [vs::RECV_UNLOCK_RET, vs::RECV_UNLOCK_EOS, vs::RECV_UNLOCK_WAIT, vs::Q_UNLOCK_RET, vs::Q_UNLOCK_EOS, vs::Q_UNLOCK_WAIT].contains(&id);
    'plan: for &t in &case.plan {
        if t >= nthreads { continue; }
        let (st, _woken) = shared.state(t);
        let cur_cop = if t == 0 && next_op[0] > 0 { Some(case.cprog[next_op[0] - 1].clone()) } else { None };
        let cancelable = matches!(cur_cop, Some(COp::RecvCancel) | Some(COp::RecvQCancel));
        let step: Result<(), String> = (|| {
            // an operation of producer t-2 has just returned: model steps without a real access
            let finished = |sched: &mut Vec<usize>, push_held: &mut Option<usize>, t: usize, op_idx: usize| {
                if t >= 2 {
                    let _ = &push_held;
                    if let POp::SendMany(l) = &case.pprogs[t - 2][op_idx] { if !l.is_empty() { sched.push(t); } } // fetch of `OSendMany []`
                }
            };
            match st {
                TState::Exited | TState::Running => Ok(()),
                TState::Idle => {
                    if next_op[t] >= nops(t) { return Ok(()); }
                    if t == 0 && eos_seen && kind == QKind::Pipe { return Ok(()); } // ChannelMediaSource latches end-of-stream locally
                    if t >= 2 {
                        if handles[t - 2] <= 0 { return Ok(()); }
                        match case.pprogs[t - 2][next_op[t]] { POp::CloneSrc => handles[t - 2] += 1, POp::DropSrc | POp::DropTx => handles[t - 2] -= 1, _ => {} }
                        many_seen[t - 2] = 0;
                    }
                    let st2 = shared.start_op(t, next_op[t])?;
                    next_op[t] += 1;
                    sched.push(t);
                    if st2 == TState::Idle { finished(&mut sched, &mut push_held, t, next_op[t] - 1); }
                    Ok(())
                }
                TState::AtYield(id) => {
                    if t == 0 && cancelable && id == sched::WAKE {
                        shared.cancel(t)?;
                        sched.push(t);
                        return Ok(());
                    }
                    if t == 0 && is_lock_id(id) && p_lock.iter().any(|x| *x) {
                        return Ok(()); // blocked on the mutex: not enabled in the model either
                    }
                    if t >= 2 && id == SRC_PUSH_LOCK && push_held.is_some() {
                        return Ok(()); // blocked on the producer lock
                    }
                    if t >= 2 {
                        if id == SRC_PUSH_LOCK { push_held = Some(t - 2); }
                        if id == vs::SRC_TRY_LOCK && !c_lock && !p_lock.iter().any(|x| *x) { p_lock[t - 2] = true; }
                        if id == vs::SRC_UNLOCK { p_lock[t - 2] = false; }
                        if id == vs::SRC_LOAD_CLOSED {
                            many_seen[t - 2] += 1;
                            if many_seen[t - 2] > 1 { sched.push(t); } // fetch of the next sample of send_many
                        }
                    }
                    if t == 0 {
                        if is_lock_id(id) { c_lock = true; }
                        if is_unlock_id(id) { c_lock = false; }
                    }
                    if id == vs::PUSH_STORE_TAIL { tail_stores += 1; }
                    if id == vs::POP_STORE_HEAD { head_stores += 1; }
                    let st2 = shared.grant(t)?;
                    sched.push(t);
                    if id == vs::EMPTY_LOADS {
                        sched.push(t);
                        // pipeline recv: `is_empty() && !closed.load()` is one expression; the closed load
                        // follows without a yield point exactly when the ring was empty
                        if kind == QKind::Pipe && tail_stores == head_stores { sched.push(t); }
                    }
                    // leaving try_send / try_send_drop_oldest releases the producer lock (no yield point of its own)
                    if t >= 2 && push_held == Some(t - 2) && (st2 == TState::Idle || st2 == TState::AtYield(vs::SRC_LOAD_CLOSED)) {
                        push_held = None;
                        sched.push(t);
                    }
                    if st2 == TState::Idle { finished(&mut sched, &mut push_held, t, next_op[t] - 1); }
                    Ok(())
                }
                TState::Pending => {
                    if t == 0 && cancelable {
                        shared.cancel(t)?;
                        sched.push(t);
                    }
                    Ok(()) // otherwise: registered and not woken, not enabled in the model either
                }
            }
        })();
        if let Err(e) = step { broken = Some(e); break 'plan; }
        // a waker may have fired during this step: let the consumer reach its WAKE yield point
        // before anything else is decided (keeps replays deterministic)
        {
            let t0 = Instant::now();
            while shared.state(0) == (TState::Pending, true) {
                if t0.elapsed() > Duration::from_secs(5) { broken = Some("woken consumer did not resume".into()); break 'plan; }
                std::thread::yield_now();
            }
        }
        // direct oracle at the moment an end-of-stream is returned
        if t == 0 {
            let cr = results[0].lock().unwrap().clone();
            if cr.len() > eos_checked {
                eos_checked = cr.len();
                if cr.last() == Some(&Ret::Eos) { eos_seen = true; }
                if cr.last() == Some(&Ret::Eos) && next_op[1] == 0 && !cr[..cr.len() - 1].contains(&Ret::Eos) {
                    if handles.iter().any(|h| *h > 0) {
                        viol.push(format!("end-of-stream while {} source handles are alive and stop() was not called", handles.iter().filter(|h| **h > 0).count()));
                    }
                    let accepted: Vec<u32> = (0..np).flat_map(|k| {
                        let rets: Vec<Ret> = results[2 + k].lock().unwrap().iter().filter(|r| !matches!(r, Ret::ManyOk)).cloned().collect();
                        let vals: Vec<u32> = case.pprogs[k].iter().filter(|o| !matches!(o, POp::Push(_))).flat_map(pop_vals).collect();
                        rets.iter().zip(vals).filter(|(r, _)| matches!(r, Ret::TryOk | Ret::SendOk)).map(|(_, v)| v).collect::<Vec<_>>()
                    }).collect();
                    if accepted.len() <= case.cap {
                        let got: Vec<u32> = cr.iter().filter_map(|r| if let Ret::Recv(v) = r { Some(*v) } else { None }).collect();
                        let missing: Vec<u32> = accepted.iter().filter(|v| !got.contains(v)).cloned().collect();
                        if !missing.is_empty() {
                            viol.push(format!("end-of-stream returned while accepted samples {:?} were never delivered (the queue never overflowed)", missing));
                        }
                    }
                }
            }
        }
    }
    // ---- state at the end of the schedule
    let crets = results[0].lock().unwrap().clone();
    let mut prets: Vec<Vec<Ret>> = (0..np).map(|k| results[2 + k].lock().unwrap().clone()).collect();
    // a send_many still running has already completed some of its sends: the model logs them one by one
    for k in 0..np {
        if next_op[2 + k] > 0 && !matches!(shared.state(2 + k).0, TState::Idle | TState::Exited) {
            if let POp::SendMany(_) = &case.pprogs[k][next_op[2 + k] - 1] {
                let reached = many_seen[k] + if shared.state(2 + k).0 == TState::AtYield(vs::SRC_LOAD_CLOSED) { 1 } else { 0 };
                for _ in 1..reached { prets[k].push(Ret::SendOk); }
            }
        }
    }
    if broken.is_none() {
        let (cst, cwoken) = shared.state(0);
        let producers_done = (0..np).all(|k| handles[k] == 0 && matches!(shared.state(2 + k).0, TState::Idle));
        let stop_done = next_op[1] > 0 && matches!(shared.state(1).0, TState::Idle) && kind == QKind::Track;
        if cst == TState::Pending && !cwoken && (producers_done || stop_done) {
            viol.push(format!("recv() is pending and nothing will ever wake it: {} (lost wakeup)",
                if stop_done { "stop() has returned" } else { "every source handle has been dropped" }));
        }
    }
    shared.finish();
    for j in joins { let _ = j.join(); }
    // integrity, order, duplicates on what was received
    let got: Vec<u32> = crets.iter().filter_map(|r| match r { Ret::Recv(v) | Ret::Pop(Some(v)) => Some(*v), _ => None }).collect();
    for r in crets.iter().chain(prets.iter().flatten()) { if let Ret::Bad(m) = r { viol.push(m.clone()); } }
    let mut seen = std::collections::BTreeSet::new();
    let mut last = vec![None::<u32>; np];
    for v in &got {
        if !seen.insert(*v) { viol.push(format!("sample {} received twice", v)); }
        let k = (*v / 1000) as usize;
        if k < np {
            if !case.pprogs[k].iter().flat_map(pop_vals).any(|x| x == *v) { viol.push(format!("sample {} was never sent", v)); }
            if let Some(l) = last[k] { if l >= *v { viol.push(format!("producer {}: {} received after {}", k, v, l)); } }
            last[k] = Some(*v);
        } else { viol.push(format!("sample {} was never sent", v)); }
    }
    drop(track); drop(fb); drop(ring);
    // drop balance over the samples that were actually created
    let created: Vec<usize> = case.pprogs.iter().flatten().flat_map(pop_vals).map(|v| v as usize).collect();
    let started: std::collections::BTreeSet<usize> = (0..np).flat_map(|k| {
        case.pprogs[k].iter().take(next_op[2 + k]).flat_map(pop_vals).map(|v| v as usize).collect::<Vec<_>>()
    }).collect();
    for id in created {
        let d = ledger.drops[id].load(Ordering::SeqCst);
        if d > 1 { viol.push(format!("payload {} released {} times", id, d)); }
        if d == 0 && started.contains(&id) { viol.push(format!("payload {} was never released (leak)", id)); }
    }
    viol.truncate(6);
    ConcOut { sched, crets, prets, viol, broken }
}

/// which replayed features Model/Spsc.v knows (cases outside get the term "-": direct oracle only)
const MODEL_PIPE: bool = true;
const MODEL_CANCEL: bool = true;
const MODEL_MULTI: bool = true;
fn model_supports(c: &ConcCase) -> bool {
    (MODEL_PIPE || c.kind() != QKind::Pipe)
        && (MODEL_CANCEL || !c.cprog.iter().any(|o| matches!(o, COp::RecvCancel | COp::RecvQCancel)))
        && (MODEL_MULTI || c.pprogs.len() <= 1)
}

fn gen_conc(rng: &mut Rng, np: usize) -> ConcCase {
    let cap = *rng.pick(&[1usize, 1, 2, 2, 3, 4]);
    let kind = if np == 1 { *rng.pick(&[QKind::Ring, QKind::Track, QKind::Track, QKind::Track, QKind::Pipe, QKind::Pipe]) } else { QKind::Track };
    let raw = kind == QKind::Ring;
    let mut pprogs = vec![];
    for k in 0..np {
        let n = rng.range(1, 5) as u32;
        let mut prog = vec![];
        let mut h = 1;
        let mut i = 0u32;
        while i < n {
            let v = k as u32 * 1000 + i;
            i += 1;
            if raw { prog.push(POp::Push(v)); continue; }
            if kind == QKind::Pipe { prog.push(if rng.chance(1, 2) { POp::Send(v) } else { POp::TrySend(v) }); continue; }
            match rng.below(12) {
                0..=3 => prog.push(POp::Send(v)),
                4..=7 => prog.push(POp::TrySend(v)),
                8 => { prog.push(POp::CloneSrc); h += 1; prog.push(POp::Send(v)); }
                9 => { if h > 1 { prog.push(POp::DropSrc); h -= 1; } prog.push(POp::TrySend(v)); }
                _ => { let m = rng.range(0, 3) as u32; prog.push(POp::SendMany((0..m).map(|j| v + j).collect())); i += m.saturating_sub(1); }
            }
        }
        if kind == QKind::Pipe { if rng.chance(5, 6) { prog.push(POp::DropTx); } }
        else if !raw && rng.chance(5, 6) { for _ in 0..h { prog.push(POp::DropSrc); } }
        pprogs.push(prog);
    }
    let nrecv = rng.range(1, 6) as usize;
    let cprog: Vec<COp> = (0..nrecv).map(|_| match kind {
        QKind::Ring => COp::Pop,
        QKind::Track => if rng.chance(1, 4) { COp::RecvCancel } else { COp::Recv },
        QKind::Pipe => if rng.chance(1, 4) { COp::RecvQCancel } else { COp::RecvQ },
    }).collect();
    let nstop = if kind == QKind::Track && rng.chance(1, 6) { 1 } else { 0 };
    // plan: bursts of one thread
    let mut plan = vec![];
    let weights: Vec<u64> = (0..2 + np).map(|t| if t == 1 { if nstop > 0 { 1 } else { 0 } } else { *rng.pick(&[1u64, 2, 3, 5]) }).collect();
    let total: u64 = weights.iter().sum();
    let len = rng.range(30, 160) as usize;
    while plan.len() < len {
        let mut x = rng.below(total);
        let mut t = 0;
        for (i, w) in weights.iter().enumerate() { if x < *w { t = i; break; } x -= *w; }
        let burst = *rng.pick(&[1u64, 1, 1, 2, 2, 3, 5, 8, 13]);
        for _ in 0..burst { plan.push(t); }
    }
    ConcCase { cap, cprog, nstop, pprogs, plan }
}

fn replay_case(out: &mut Out, case: &ConcCase, kind: &str, known_class: Option<&str>) -> bool {
    let r = run_conc(case);
    let nlist = |l: &Vec<usize>| format!("[{}]", l.iter().map(|x| format!("{}%nat", x)).collect::<Vec<_>>().join("; "));
    let term = if r.broken.is_some() || !model_supports(case) { "-".to_string() } else {
        format!("mkConc {} {} {}%nat {} {} {} {}", case.cap,
            list_term(&case.cprog.iter().map(cop_term).collect::<Vec<_>>()), case.nstop,
            list_term(&case.pprogs.iter().map(|p| list_term(&p.iter().map(pop_term).collect::<Vec<_>>())).collect::<Vec<_>>()),
            nlist(&r.sched),
            list_term(&r.crets.iter().map(ret_term).collect::<Vec<_>>()),
            list_term(&r.prets.iter().map(|p| list_term(&p.iter().map(ret_term).collect::<Vec<_>>())).collect::<Vec<_>>()))
    };
    let mut viol = r.viol.clone();
    if let Some(b) = &r.broken { viol.push(format!("replay broke down: {}", b)); }
    let failed = !viol.is_empty();
    out.push(Case {
        term,
        desc: json!({"capacity": case.cap, "consumer_program": case.cprog.iter().map(|o| format!("{:?}", o)).collect::<Vec<_>>(),
                     "stop_calls": case.nstop, "producer_programs": case.pprogs.iter().map(|p| p.iter().map(|o| format!("{:?}", o)).collect::<Vec<_>>()).collect::<Vec<_>>(),
                     "schedule": r.sched, "consumer_results": r.crets.iter().map(|x| format!("{:?}", x)).collect::<Vec<_>>(),
                     "producer_results": r.prets.iter().map(|p| p.iter().map(|x| format!("{:?}", x)).collect::<Vec<_>>()).collect::<Vec<_>>(),
                     "violations": viol}),
        oracle_fail: if failed && known_class.is_none() { Some(viol.join("; ")) } else { None },
        known: if failed { known_class.map(|s| s.to_string()) } else { None },
        nontrivial: r.crets.len() + r.prets.iter().map(|p| p.len()).sum::<usize>() > 1,
        key: format!("{:?}", case),
        kind: kind.into(),
    });
    failed
}



/// lines of a child's stdout; if the child prints nothing for `idle` seconds it is killed (a real
/// thread spinning forever inside the code under test must not hang the harness) and the iterator ends
fn child_lines(child: &mut std::process::Child, idle: u64) -> impl Iterator<Item = String> {
    use std::io::BufRead;
    let out = child.stdout.take().unwrap();
    let (tx, rx) = std::sync::mpsc::channel::<String>();
    std::thread::spawn(move || {
        for line in std::io::BufReader::new(out).lines().map_while(Result::ok) {
            if tx.send(line).is_err() { break; }
        }
    });
    let pid = child.id();
    std::iter::from_fn(move || match rx.recv_timeout(Duration::from_secs(idle)) {
        Ok(l) => Some(l),
        Err(std::sync::mpsc::RecvTimeoutError::Timeout) => {
            let _ = std::process::Command::new("kill").args(["-9", &pid.to_string()]).status();
            None
        }
        Err(_) => None,
    })
}

/// the sequential inputs of a run (corpus + generated), a pure function of (seed, tier)
fn seq_inputs(seed: u64, thorough: bool) -> (Vec<(usize, Vec<Act>, &'static str)>, std::collections::BTreeMap<String, u64>, usize) {
    let mut rng = Rng::new(seed);
    let mut inputs: Vec<(usize, Vec<Act>, &'static str)> = vec![];
    let nseq = if thorough { 12000 } else { 2600 };
    let mut dist = std::collections::BTreeMap::<String, u64>::new();
    for cap in [1usize, 2, 3, 4, 5, 8, 64] {
        // fill, overflow by one, drain, underflow by one -- bare ring
        let mut a: Vec<Act> = (0..cap as u32 + 1).map(Act::Push).collect();
        a.extend((0..cap + 1).map(|_| Act::Pop));
        a.extend((0..2u32).map(|i| Act::Push(cap as u32 + 1 + i)));
        a.push(Act::Pop);
        inputs.push((cap, a, "corpus"));
        // wrap the index a few times around a non-power-of-two / power-of-two capacity
        let mut a = vec![];
        for i in 0..(3 * cap as u32 + 2) { a.push(Act::Push(i)); if i % 2 == 1 || cap == 1 { a.push(Act::Pop); } }
        inputs.push((cap, a, "corpus"));
        // track: fill with try_send, WouldBlock, send drops the oldest, close, drain, end-of-stream twice
        let mut a: Vec<Act> = (0..cap as u32).map(Act::TrySend).collect();
        a.push(Act::TrySend(cap as u32));
        a.push(Act::Send(cap as u32 + 1));
        a.push(Act::SendMany(vec![cap as u32 + 2, cap as u32 + 3]));
        a.push(Act::Recv);
        a.push(Act::CloneSrc);
        a.push(Act::DropSrc);
        a.push(Act::Recv);
        a.push(Act::DropSrc);
        a.extend((0..cap + 2).map(|_| Act::Recv));
        inputs.push((cap, a, "corpus"));
        // track: recv on an empty open track is pending; stop() ends the stream with samples still queued
        let a = vec![Act::Recv, Act::Send(0), Act::Send(1), Act::Recv, Act::Stop, Act::Recv, Act::Send(2), Act::DropSrc, Act::Recv];
        inputs.push((cap, a, "corpus"));
        // track: source dropped with a clone alive keeps the stream open
        let a = vec![Act::CloneSrc, Act::DropSrc, Act::TrySend(0), Act::Recv, Act::Recv, Act::DropSrc, Act::Recv];
        inputs.push((cap, a, "corpus"));
    }

    // ---- generated sequential schedules
    for i in 0..nseq {
        let cap = if i % 9 == 8 { 64 } else { 1 + (i % 8) };
        let raw = rng.chance(1, 3);
        let len = if cap == 64 { rng.range(60, 160) } else { rng.range(4, 40) } as usize;
        let acts = gen_seq(&mut rng, cap, raw, len);
        *dist.entry(format!("cap{}_{}", cap, if raw { "ring" } else { "track" })).or_default() += 1;
        inputs.push((cap, acts, "random-sequential"));
    }

    (inputs, dist, nseq)
}

/// child mode `c20 --child-seq <tier> <seed> <skip>`: run the sequential inputs from index <skip> on
/// the real code, one JSON line per finished case, "B <index>" before each -- if the real code
/// corrupts memory and the process dies, the parent knows which input did it
fn child_seq(args: &[String]) -> ! {
    use std::io::Write;
    silence_panics();
    let thorough = args[0] == "thorough";
    let seed: u64 = args[1].parse().unwrap();
    let skip: usize = args[2].parse().unwrap();
    let (inputs, _, _) = seq_inputs(seed, thorough);
    let so = std::io::stdout();
    for (i, (cap, acts, kind)) in inputs.into_iter().enumerate().skip(skip) {
        { let mut o = so.lock(); writeln!(o, "B {}", i).unwrap(); o.flush().unwrap(); }
        let mut tmp = Out { dir: String::new(), cases: vec![] };
        seq_case(&mut tmp, cap, acts, kind);
        let c = tmp.cases.pop().unwrap();
        let line = json!({"term": c.term, "desc": c.desc, "oracle_fail": c.oracle_fail, "nontrivial": c.nontrivial, "key": c.key, "kind": c.kind});
        { let mut o = so.lock(); writeln!(o, "E {}", line).unwrap(); o.flush().unwrap(); }
    }
    std::process::exit(0)
}

fn run_seq_children(out: &mut Out, tier: &str, seed: u64, thorough: bool) -> (std::collections::BTreeMap<String, u64>, usize, usize) {
    let (inputs, dist, nseq) = seq_inputs(seed, thorough);
    let exe = std::env::current_exe().unwrap();
    let mut skip = 0usize;
    let mut crashes = 0usize;
    while skip < inputs.len() && crashes < 12 {
        let mut child = std::process::Command::new(&exe)
            .args(["--child-seq", tier, &seed.to_string(), &skip.to_string()])
            .stdout(std::process::Stdio::piped()).stderr(std::process::Stdio::null()).spawn().expect("spawn child");
        let mut pending: Option<usize> = None;
        for line in child_lines(&mut child, 40) {
            if let Some(r) = line.strip_prefix("B ") { pending = r.trim().parse().ok(); }
            else if let Some(r) = line.strip_prefix("E ") {
                if let Ok(v) = serde_json::from_str::<serde_json::Value>(r) {
                    out.push(Case { term: v["term"].as_str().unwrap_or("-").to_string(), desc: v["desc"].clone(),
                        oracle_fail: v["oracle_fail"].as_str().map(|x| x.to_string()), known: None,
                        nontrivial: v["nontrivial"].as_bool().unwrap_or(false), key: v["key"].as_str().unwrap_or("").to_string(),
                        kind: v["kind"].as_str().unwrap_or("?").to_string() });
                }
                if let Some(i) = pending.take() { skip = i + 1; }
            }
        }
        let status = child.wait().ok();
        match pending {
            Some(i) => {
                crashes += 1;
                let (cap, acts, kind) = &inputs[i];
                out.push(Case { term: "-".into(),
                    desc: json!({"capacity": cap, "ops": acts.iter().map(|a| format!("{:?}", a)).collect::<Vec<_>>(), "process_status": format!("{:?}", status)}),
                    oracle_fail: Some(format!("the process died ({:?}) while running this operation sequence on the real queue and dropping it: memory error", status)),
                    known: None, nontrivial: true, key: format!("{}|{:?}", cap, acts), kind: kind.to_string() });
                skip = i + 1;
            }
            None => { if !status.map(|s| s.success()).unwrap_or(false) { break; } }
        }
    }
    (dist, nseq, crashes)
}


const N_WITNESS: usize = 5;
/// the replay inputs of a run: witnesses first, then generated programs + plans
fn replay_inputs(seed: u64, thorough: bool) -> Vec<(ConcCase, &'static str, Option<&'static str>)> {
    let rep = |n: usize, t: usize| std::iter::repeat(t).take(n);
    let mut v: Vec<(ConcCase, &'static str, Option<&'static str>)> = vec![];
    // witness (C20-F26): the last source is dropped between recv()'s closed check and its await
    v.push((ConcCase { cap: 2, cprog: vec![COp::Recv], nstop: 0, pprogs: vec![vec![POp::DropSrc]],
        plan: rep(8, 0).chain(rep(4, 2)).chain(rep(12, 0)).collect() }, "corpus-replay", None));
    // witness (C20-F26): same window for stop()
    v.push((ConcCase { cap: 2, cprog: vec![COp::Recv], nstop: 1, pprogs: vec![vec![]],
        plan: rep(3, 0).chain(rep(3, 1)).chain(rep(12, 0)).collect() }, "corpus-replay", None));
    // witness (C20-F27): send + drop of the source between recv()'s pop (empty) and its closed check
    v.push((ConcCase { cap: 2, cprog: vec![COp::Recv, COp::Recv], nstop: 0, pprogs: vec![vec![POp::Send(7), POp::DropSrc]],
        plan: rep(7, 0).chain(rep(11, 2)).chain(rep(30, 0)).collect() }, "corpus-replay", None));
    // witness F22: two producers pass the full test together and write the same slot (the first sample is
    // overwritten without being dropped: a leak here, a data race when the two writes overlap)
    v.push((ConcCase { cap: 2, cprog: vec![COp::Recv, COp::Recv], nstop: 0, pprogs: vec![vec![POp::Send(10)], vec![POp::Send(1020)]],
        plan: [2, 2, 2, 2, 3, 3, 3, 3, 2, 3, 2, 3, 2, 3].into_iter().chain(rep(18, 0)).collect() },
        "corpus-replay-mpsc", None));
    // witness (C20-F28, pipeline queue): send + drop of the sender between recv()'s pop (empty) and its closed check
    v.push((ConcCase { cap: 2, cprog: vec![COp::RecvQ, COp::RecvQ], nstop: 0, pprogs: vec![vec![POp::Send(7), POp::DropTx]],
        plan: rep(4, 0).chain(rep(10, 2)).chain(rep(30, 0)).collect() }, "corpus-replay", None));
    let mut rng = Rng::new(seed ^ 0x5EED_0003);
    for i in 0..(if thorough { 40_000 } else { 3000 }) {
        // every fourth case has 2 or 3 producer threads (cloned handles): push_lock serialises them
        let np = if i % 4 == 3 { 2 + (i / 4) % 2 } else { 1 };
        v.push((gen_conc(&mut rng, np), if np == 1 { "random-replay" } else { "random-replay-mpsc" }, None));
    }
    v
}

fn case_json(c: &Case) -> serde_json::Value {
    json!({"term": c.term, "desc": c.desc, "oracle_fail": c.oracle_fail, "known": c.known, "nontrivial": c.nontrivial, "key": c.key, "kind": c.kind})
}
fn case_from_json(v: &serde_json::Value) -> Case {
    Case { term: v["term"].as_str().unwrap_or("-").to_string(), desc: v["desc"].clone(),
        oracle_fail: v["oracle_fail"].as_str().map(|x| x.to_string()), known: v["known"].as_str().map(|x| x.to_string()),
        nontrivial: v["nontrivial"].as_bool().unwrap_or(false), key: v["key"].as_str().unwrap_or("").to_string(),
        kind: v["kind"].as_str().unwrap_or("?").to_string() }
}

/// child mode `c20 --child-replay <tier> <seed> <skip> <seconds>`
fn child_replay(args: &[String]) -> ! {
    use std::io::Write;
    silence_panics();
    let thorough = args[0] == "thorough";
    let seed: u64 = args[1].parse().unwrap();
    let skip: usize = args[2].parse().unwrap();
    let secs: u64 = args[3].parse().unwrap();
    let inputs = replay_inputs(seed, thorough);
    let so = std::io::stdout();
    let t0 = Instant::now();
    for (i, (case, kind, known)) in inputs.iter().enumerate().skip(skip) {
        if i >= N_WITNESS && t0.elapsed() > Duration::from_secs(secs) { break; }
        { let mut o = so.lock(); writeln!(o, "B {}", i).unwrap(); o.flush().unwrap(); }
        let mut tmp = Out { dir: String::new(), cases: vec![] };
        replay_case(&mut tmp, case, kind, *known);
        let c = tmp.cases.pop().unwrap();
        { let mut o = so.lock(); writeln!(o, "E {}", case_json(&c)).unwrap(); o.flush().unwrap(); }
    }
    std::process::exit(0)
}

fn run_replay_children(out: &mut Out, tier: &str, seed: u64, thorough: bool) -> usize {
    let inputs = replay_inputs(seed, thorough);
    let exe = std::env::current_exe().unwrap();
    let total_budget = if thorough { 120u64 } else { 12 };
    let t0 = Instant::now();
    let mut skip = 0usize;
    let mut crashes = 0usize;
    let mut done = 0usize;
    while skip < inputs.len() && crashes < 12 {
        let left = total_budget.saturating_sub(t0.elapsed().as_secs());
        if skip >= N_WITNESS && left == 0 { break; }
        let mut child = std::process::Command::new(&exe)
            .args(["--child-replay", tier, &seed.to_string(), &skip.to_string(), &left.max(1).to_string()])
            .stdout(std::process::Stdio::piped()).stderr(std::process::Stdio::null()).spawn().expect("spawn child");
        let mut pending: Option<usize> = None;
        for line in child_lines(&mut child, 40) {
            if let Some(r) = line.strip_prefix("B ") { pending = r.trim().parse().ok(); }
            else if let Some(r) = line.strip_prefix("E ") {
                if let Ok(v) = serde_json::from_str::<serde_json::Value>(r) { out.push(case_from_json(&v)); done += 1; }
                if let Some(i) = pending.take() { skip = i + 1; }
            }
        }
        let status = child.wait().ok();
        match pending {
            Some(i) => {
                crashes += 1;
                let (case, kind, known) = &inputs[i];
                let what = format!("the process died ({:?}) while this plan was executed step by step on real threads: memory error", status);
                out.push(Case { term: "-".into(),
                    desc: json!({"capacity": case.cap, "consumer_program": case.cprog.iter().map(|o| format!("{:?}", o)).collect::<Vec<_>>(), "stop_calls": case.nstop,
                                 "producer_programs": case.pprogs.iter().map(|p| p.iter().map(|o| format!("{:?}", o)).collect::<Vec<_>>()).collect::<Vec<_>>(),
                                 "plan": case.plan, "process_status": format!("{:?}", status)}),
                    oracle_fail: if known.is_none() { Some(what.clone()) } else { None }, known: known.map(|k| k.to_string()),
                    nontrivial: true, key: format!("{:?}", case), kind: kind.to_string() });
                skip = i + 1;
            }
            None => break,
        }
    }
    done
}


/// child mode `c20 --child-stress <tier> <seed>`: free-running one-producer / one-consumer stress
fn child_stress(args: &[String]) -> ! {
    use std::io::Write;
    silence_panics();
    let thorough = args[0] == "thorough";
    let seed: u64 = args[1].parse().unwrap();
    let begin = |info: serde_json::Value| { let so = std::io::stdout(); let mut o = so.lock(); writeln!(o, "B {}", info).unwrap(); o.flush().unwrap(); };
    let emit = |out: &mut Out, v: Vec<String>, info: serde_json::Value, kind: &str, known: Option<&str>| {
        conc_case(out, v, info, kind, known);
        let c = out.cases.pop().unwrap();
        let so = std::io::stdout(); let mut o = so.lock(); writeln!(o, "E {}", case_json(&c)).unwrap(); o.flush().unwrap();
    };
    let mut out = Out { dir: String::new(), cases: vec![] };
    let t_conc = Instant::now();
    let budget = Duration::from_secs(if thorough { 60 } else { 9 });
    let mut nconc = 0u64;
    let mut round = 0u64;
    while t_conc.elapsed() < budget {
        for cap in [1usize, 2, 3, 7, 8, 64] {
            begin(json!({"stress": "ring", "capacity": cap}));
            let (v, info) = stress_ring(cap, if thorough { 400_000 } else { 60_000 });
            emit(&mut out, v, info, "stress-ring-spsc", None);
            begin(json!({"stress": "track", "capacity": cap}));
            for (mode, stop) in [(Mode::Lossless, None), (Mode::Lossy, None), (Mode::Lossy, Some(50u32))] {
                let cfg = StressCfg { cap, producers: 1, per_producer: if thorough { 60_000 } else { 12_000 }, mode, shared: false,
                                      stop_after: stop, seed: seed.wrapping_mul(1000).wrapping_add(round) };
                let (v, info) = stress_track(&cfg);
                emit(&mut out, v, info, "stress-track-spsc", None);
                nconc += 1;
            }
            // many short-lived tracks: close / drain / end-of-stream races
            for k in 0..(if thorough { 3000 } else { 400 }) {
                let cfg = StressCfg { cap, producers: 1, per_producer: 1 + (k % 5) as u32, mode: if k % 2 == 0 { Mode::Lossless } else { Mode::Lossy },
                                      shared: false, stop_after: None, seed: seed.wrapping_mul(7919).wrapping_add(round * 100_000 + k) };
                let (v, info) = stress_track(&cfg);
                if !v.is_empty() || k == 0 {
                    emit(&mut out, v, info, "stress-track-close", None);
                }
                nconc += 1;
            }
            if t_conc.elapsed() >= budget { break; }
        }
        round += 1;
    }

    let _ = nconc;
    std::process::exit(0)
}

fn run_stress_child(out: &mut Out, tier: &str, seed: u64) -> u64 {
    let exe = std::env::current_exe().unwrap();
    let mut child = std::process::Command::new(&exe).args(["--child-stress", tier, &seed.to_string()])
        .stdout(std::process::Stdio::piped()).stderr(std::process::Stdio::null()).spawn().expect("spawn child");
    let mut pending: Option<String> = None;
    let mut n = 0u64;
    for line in child_lines(&mut child, 60) {
        if let Some(r) = line.strip_prefix("B ") { pending = Some(r.to_string()); }
        else if let Some(r) = line.strip_prefix("E ") {
            if let Ok(v) = serde_json::from_str::<serde_json::Value>(r) { out.push(case_from_json(&v)); n += 1; }
        }
    }
    let status = child.wait().ok();
    if !status.map(|s| s.success()).unwrap_or(false) {
        out.push(Case { term: "-".into(), desc: json!({"run": pending, "process_status": format!("{:?}", status)}),
            oracle_fail: Some(format!("the free-running one-producer / one-consumer stress process died ({:?}): memory error in the real queue", status)),
            known: None, nontrivial: true, key: "stress-child-died".into(), kind: "stress-track-spsc".into() });
    }
    n
}

fn main() {
    let argv: Vec<String> = std::env::args().collect();
    if argv.len() > 2 && argv[1] == "--child-mpsc" {
        child_mpsc(&argv[2..]);
    }
    if argv.len() > 4 && argv[1] == "--child-seq" {
        child_seq(&argv[2..]);
    }
    if argv.len() > 5 && argv[1] == "--child-replay" {
        child_replay(&argv[2..]);
    }
    if argv.len() > 3 && argv[1] == "--child-stress" {
        child_stress(&argv[2..]);
    }
    let args = parse_args();
    silence_panics();
    let thorough = args.tier == "thorough";
    let mut out = Out::new(&args.out);

    // ---- corpus: build-target assumption, boundary sequences
    {
        let ok = usize::BITS == 64;
        out.push(Case { term: "-".into(), desc: json!({"check": "usize::BITS == 64 (Gen/SpscProg.v ring_index_bits)", "bits": usize::BITS}),
            oracle_fail: if ok { None } else { Some("usize is not 64 bit on this target: the model's wrap modulus does not apply".into()) },
            known: None, nontrivial: false, key: "usize".into(), kind: "corpus".into() });
        fn assert_traits<T: Send + Sync>() {}
        assert_traits::<SampleStreamSource>();
        assert_traits::<SampleStreamTrack>();
        assert_traits::<SpscRing<u8>>();
    }
    let (dist, nseq, seq_crashes) = run_seq_children(&mut out, &args.tier, args.seed, thorough);
    let _ = seq_crashes;

    // a violation on sequential inputs means the real objects can corrupt memory: the in-process
    // concurrent parts would only crash the harness and lose the failing inputs found so far
    let seq_failed = out.cases.iter().any(|c| c.oracle_fail.is_some());
    if seq_failed {
        out.finish(json!({"generator": {"sequential": {"cases": nseq, "by_capacity_and_object": dist},
            "note": "concurrent parts skipped: the direct oracle failed on sequential inputs"}}));
        return;
    }

    // ---- (d) schedules replayed on real threads through hook H2 (child process: a memory error of the
    // real code is attributed to the schedule that caused it)
    let nrep = run_replay_children(&mut out, &args.tier, args.seed, thorough) as u64;

    // ---- (b) concurrent, one producer thread, one consumer thread (child process as well)
    let nconc = run_stress_child(&mut out, &args.tier, args.seed);

    // ---- (c) several producer threads on one queue (listed finding F22), child process
    let t_mpsc = Instant::now();
    let mpsc_budget = Duration::from_secs(if thorough { 60 } else { 8 });
    let mut nmpsc = 0u64;
    let mut k = 0u64;
    while t_mpsc.elapsed() < mpsc_budget {
        let producers = 2 + (k % 3) as usize;
        let cap = [1usize, 2, 4, 8, 64][(k % 5) as usize];
        let mode = if k % 2 == 0 { Mode::Lossless } else { Mode::Lossy };
        let shared = k % 4 >= 2;
        // every third run: the pipeline queue with one &SampleQueueSender shared by the producer threads
        let pipe = k % 3 == 2;
        let (v, info) = run_child_mpsc(cap, producers, 20_000, mode, shared, args.seed + k, pipe);
        conc_case(&mut out, v, info, if pipe { "stress-pipe-mpsc" } else { "stress-track-mpsc" }, None);
        nmpsc += 1;
        k += 1;
    }

    out.finish(json!({"generator": {
        "sequential": {"cases": nseq, "by_capacity_and_object": dist,
            "styles": "balanced / producer-heavy (overflow, drop-oldest) / consumer-heavy (empty, pending) / bursts of capacity-1, capacity, capacity+1 operations; track cases end with drop of every handle and a full drain in 4/5 resp. 3/4 of the cases",
            "ops": "ring: push pop; track: try_send send send_many(0..4) clone drop recv(poll once) stop"},
        "concurrent_spsc_runs": nconc, "schedule_replays": nrep, "concurrent_mpsc_child_runs": nmpsc,
        "concurrent": "real threads, capacities 1 2 3 7 8 64; lossless = try_send retried until accepted (every accepted sample must arrive), lossy = send / try_send / send_many / send through a temporary clone; optional stop() from a third thread; many short-lived tracks for the close race"}}));
}
