//! Deterministic scheduler over hook H2 (`rustrtc::verif_sched`): real threads run the real
//! SpscRing / sample_track code and stop before every shared-memory access; the controller lets
//! exactly one thread perform exactly one access at a time, following a list of thread ids
//! (0 = consumer, 1 = controller thread calling stop(), 2+k = producer k).  The schedule that was
//! actually executed is recorded in the model's step granularity and replayed by
//! `run (init ..) sched` in Coq.
use rustrtc::verif_sched as vs;
use std::sync::{Arc, Condvar, Mutex};
use std::time::{Duration, Instant};

pub const WAKE: u32 = 100; // pseudo yield point: a pending recv() was woken and resumes

#[derive(Clone, Copy, Debug, PartialEq)]
pub enum TState {
    Idle,
    Running,
    AtYield(u32),
    Pending,
    Exited,
}

pub enum Parked {
    Resume,
    Cancel,
    Abort,
}

pub struct Inner {
    pub st: Vec<TState>,
    pub grant: Option<usize>,
    pub free_run: bool,
    pub shutdown: bool,
    pub issued: Vec<usize>,
    pub done: Vec<usize>,
    pub cmd: Vec<Option<usize>>, // index of the operation to start
    pub woken: Vec<bool>,
    pub cancel: Vec<bool>,
}
pub struct Shared {
    pub m: Mutex<Inner>,
    pub cv: Condvar,
}
impl Shared {
    pub fn new(n: usize) -> Arc<Self> {
        Arc::new(Shared {
            m: Mutex::new(Inner { st: vec![TState::Idle; n], grant: None, free_run: false, shutdown: false,
                                  issued: vec![0; n], done: vec![0; n], cmd: vec![None; n], woken: vec![false; n], cancel: vec![false; n] }),
            cv: Condvar::new(),
        })
    }
    /// called (through the hook) by worker `t` right before a shared access
    pub fn at_yield(&self, t: usize, id: u32) {
        let mut g = self.m.lock().unwrap();
        if g.free_run {
            return;
        }
        g.st[t] = TState::AtYield(id);
        self.cv.notify_all();
        while g.grant != Some(t) && !g.free_run {
            g = self.cv.wait(g).unwrap();
        }
        if g.grant == Some(t) {
            g.grant = None;
        }
        g.st[t] = TState::Running;
        self.cv.notify_all();
    }
    pub fn install_hook(self: &Arc<Self>, t: usize) {
        let me = self.clone();
        vs::set_hook(Some(Box::new(move |id| me.at_yield(t, id))));
    }
    /// worker: wait for the next operation index (None = shut down)
    pub fn next_cmd(&self, t: usize) -> Option<usize> {
        let mut g = self.m.lock().unwrap();
        g.st[t] = TState::Idle;
        self.cv.notify_all();
        loop {
            if let Some(c) = g.cmd[t].take() {
                g.st[t] = TState::Running;
                return Some(c);
            }
            if g.shutdown {
                g.st[t] = TState::Exited;
                self.cv.notify_all();
                return None;
            }
            g = self.cv.wait(g).unwrap();
        }
    }
    pub fn op_done(&self, t: usize) {
        let mut g = self.m.lock().unwrap();
        g.done[t] += 1;
        g.st[t] = TState::Idle;
        self.cv.notify_all();
    }
    /// worker: the future returned Pending; block until its waker fired, then behave like a yield
    /// point (WAKE) -- the state goes Pending -> AtYield(WAKE) under one lock.  A cancelable
    /// operation can also be told to drop its future, while pending or at the WAKE point.
    pub fn park_pending(&self, t: usize, cancelable: bool) -> Parked {
        let mut g = self.m.lock().unwrap();
        g.st[t] = TState::Pending;
        self.cv.notify_all();
        while !g.woken[t] && !g.shutdown && !(cancelable && g.cancel[t]) {
            g = self.cv.wait(g).unwrap();
        }
        if cancelable && g.cancel[t] {
            g.cancel[t] = false;
            g.st[t] = TState::Running;
            self.cv.notify_all();
            return Parked::Cancel;
        }
        if !g.woken[t] {
            return Parked::Abort;
        }
        g.woken[t] = false;
        if g.free_run {
            g.st[t] = TState::Running;
            return Parked::Resume;
        }
        g.st[t] = TState::AtYield(WAKE);
        self.cv.notify_all();
        while g.grant != Some(t) && !g.free_run && !(cancelable && g.cancel[t]) {
            g = self.cv.wait(g).unwrap();
        }
        if g.grant == Some(t) {
            g.grant = None;
        }
        g.st[t] = TState::Running;
        let c = cancelable && g.cancel[t];
        g.cancel[t] = false;
        self.cv.notify_all();
        if c { Parked::Cancel } else { Parked::Resume }
    }
    /// controller: tell the (pending or woken) cancelable operation of thread t to drop its future
    pub fn cancel(&self, t: usize) -> Result<TState, String> {
        {
            let mut g = self.m.lock().unwrap();
            g.cancel[t] = true;
            self.cv.notify_all();
        }
        self.wait_settled(t)
    }
    pub fn wake(&self, t: usize) {
        let mut g = self.m.lock().unwrap();
        g.woken[t] = true;
        self.cv.notify_all();
    }

    // ---- controller side
    fn wait_settled(&self, t: usize) -> Result<TState, String> {
        let t0 = Instant::now();
        let mut g = self.m.lock().unwrap();
        loop {
            let settled = g.grant.is_none() && g.cmd[t].is_none() && !g.cancel[t] && match g.st[t] {
                TState::Running => false,
                TState::Idle => g.done[t] == g.issued[t],
                _ => true,
            };
            if settled {
                return Ok(g.st[t]);
            }
            if t0.elapsed() > Duration::from_secs(5) {
                return Err(format!("thread {} did not reach a yield point within 5 s (state {:?})", t, g.st[t]));
            }
            let (g2, _) = self.cv.wait_timeout(g, Duration::from_millis(200)).unwrap();
            g = g2;
        }
    }
    pub fn state(&self, t: usize) -> (TState, bool) {
        let g = self.m.lock().unwrap();
        (g.st[t], g.woken[t])
    }
    pub fn start_op(&self, t: usize, op: usize) -> Result<TState, String> {
        {
            let mut g = self.m.lock().unwrap();
            g.cmd[t] = Some(op);
            g.issued[t] += 1;
            self.cv.notify_all();
        }
        self.wait_settled(t)
    }
    pub fn grant(&self, t: usize) -> Result<TState, String> {
        {
            let mut g = self.m.lock().unwrap();
            g.grant = Some(t);
            self.cv.notify_all();
        }
        self.wait_settled(t)
    }
    pub fn finish(&self) {
        let mut g = self.m.lock().unwrap();
        g.free_run = true;
        g.shutdown = true;
        self.cv.notify_all();
    }
}
