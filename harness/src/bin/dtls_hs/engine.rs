//! Script interpreter shared by c02 / c11: runs one live rustrtc DTLS pair through the
//! programmable proxy under a declarative script (faults, tampering, injections), records what
//! was delivered to each endpoint as symbolic references (for the Coq model), what each endpoint
//! emitted and how both ended, and evaluates wire-level facts for the direct oracles with
//! RustCrypto (p256, sha2) independently of the crate under test.
#![allow(dead_code)]
use super::*;
use bytes::Bytes;
use p256::ecdsa::signature::{Signer, Verifier};
use p256::ecdsa::{Signature, SigningKey, VerifyingKey};
use p256::pkcs8::DecodePrivateKey;
use rustrtc::transports::dtls::{fingerprint, generate_certificate, Certificate, DtlsState, DtlsTransport};
use serde_json::json;
use sha2::{Digest, Sha256};
use std::collections::{BTreeSet, HashMap};
use std::sync::atomic::{AtomicBool, Ordering};
use std::sync::Arc;
use std::time::{Duration, Instant};
use tokio::net::UdpSocket;
use tokio::sync::mpsc;
use vh::net::{Dir, Endpoint, Policy, Proxy, Verdict};

#[derive(Clone, Copy, PartialEq, Eq, Debug, Hash, PartialOrd, Ord)]
pub enum Kind { CH, SH, HVR, CERT, SKE, SHD, CKE, CCS, FIN, APP, ALERT, OTHER }

pub fn kind_of(r: &Rec) -> Kind {
    match r.ct {
        CT_CCS => Kind::CCS,
        CT_ALERT => Kind::ALERT,
        CT_APPDATA => Kind::APP,
        CT_HANDSHAKE if r.epoch > 0 => Kind::FIN,
        CT_HANDSHAKE => match parse_frags(&r.payload).first().map(|f| f.ty) {
            Some(HT_CLIENT_HELLO) => Kind::CH,
            Some(HT_SERVER_HELLO) => Kind::SH,
            Some(HT_HELLO_VERIFY) => Kind::HVR,
            Some(HT_CERTIFICATE) => Kind::CERT,
            Some(HT_SERVER_KEY_EXCHANGE) => Kind::SKE,
            Some(HT_SERVER_HELLO_DONE) => Kind::SHD,
            Some(HT_CLIENT_KEY_EXCHANGE) => Kind::CKE,
            _ => Kind::OTHER,
        },
        _ => Kind::OTHER,
    }
}

#[derive(Clone, Copy, PartialEq, Eq, Debug)]
pub enum Expect { None, Right, Wrong, Truncated(usize), WrongPrefix }
impl Expect {
    /// model code: 0 none, 1 the peer's digest, >= 2 some other value (a strict prefix of the digest is another value)
    pub fn code(self) -> i128 { match self { Expect::None => 0, Expect::Right => 1, Expect::Wrong => 2, Expect::Truncated(_) => 3, Expect::WrongPrefix => 4 } }
}

#[derive(Clone, Debug, PartialEq)]
pub enum Tam {
    SetCert(usize),     // leaf := certificate of man-in-the-middle identity k
    AppendCert(usize),  // chain := [original leaf, certificate of identity k]
    Resign(usize),      // ServerKeyExchange signature := ECDSA by identity k over client_random ‖ server_random (as delivered) ‖ params
    FlipRandom,
    FlipSid,
    FlipPub,
    FlipSig,
    Corrupt,            // flip a bit in the ciphertext of a sealed record
    SetSeq(u16),
    StripEms,
    StripSrtp,
    Garble,             // make the body undecodable
}

#[derive(Clone, Debug, PartialEq)]
pub enum Forge {
    PlainFinished(u16),       // epoch-0 Finished with made-up verify_data, message_seq given
    PlainFinishedLen(u16, usize), // the same with a verify_data of the given length (0 = empty body)
    PlainAppData,
    Hvr(u16),
    PlainCloseNotify,
    GarbageHs(u8, u16),       // handshake message of the given type / message_seq with an undecodable body
    SealedGarbage,
    Certificate(usize, u16),  // Certificate message carrying man-in-the-middle identity k, message_seq given
}

#[derive(Clone, Debug, PartialEq)]
pub enum Act {
    Drop,
    Dup,
    DelayMs(u64),
    Swap,
    Frag { cuts: Vec<usize>, order: Vec<usize> },
    Tamper(Vec<Tam>),
    Then(Vec<Forge>),
}

#[derive(Clone, Copy, Debug, PartialEq)]
pub enum Occ { Nth(usize), All }

#[derive(Clone, Debug, PartialEq)]
pub struct Rule { pub dir: Dir, pub kind: Kind, pub occ: Occ, pub act: Act }

#[derive(Clone, Debug)]
pub struct Script {
    pub name: String,
    pub cexp: Expect,
    pub sexp: Expect,
    pub rules: Vec<Rule>,
    pub window_ms: u64,
}

impl Script {
    pub fn json(&self) -> serde_json::Value {
        json!({"name": self.name, "client_expects": format!("{:?}", self.cexp), "server_expects": format!("{:?}", self.sexp),
               "rules": self.rules.iter().map(|r| format!("{:?} {:?} {:?} {:?}", r.dir, r.kind, r.occ, r.act)).collect::<Vec<_>>(),
               "window_ms": self.window_ms})
    }
    pub fn max_delay_ms(&self) -> u64 {
        self.rules.iter().map(|r| if let Act::DelayMs(d) = r.act { d } else { 0 }).max().unwrap_or(0)
    }
}

#[derive(Clone, Copy, PartialEq, Eq, Debug)]
pub enum Side { Client, Server }
impl Side {
    fn term(self) -> &'static str { match self { Side::Client => "Client", Side::Server => "Server" } }
}

/// what was delivered to an endpoint, in model vocabulary
#[derive(Clone, Debug)]
pub struct Event { pub t: f64, pub term: String, pub human: String }

pub type Skel = (u16, u64, u8, Vec<(u8, u16)>);

/// wire-level facts the direct oracles need, computed here with independent primitives
#[derive(Clone, Debug, Default)]
pub struct WireFacts {
    /// sha-256 fingerprints ("AA:BB:..") of every leaf certificate delivered to the client / server
    pub certs_to_client: Vec<String>,
    pub certs_to_server: Vec<String>,
    /// for every ServerKeyExchange delivered to the client: does its signature verify (p256) under the
    /// key of the last certificate delivered before it, over client_random ‖ server_random(as delivered) ‖ params
    pub ske_sig_ok: Vec<bool>,
    pub plain_appdata_to_client: usize,
    pub plain_appdata_to_server: usize,
    pub client_cert_requested: bool,
}

struct Shared {
    t0: Instant,
    rules: Vec<Rule>,
    seen: HashMap<(bool, Kind), usize>,
    held: [Option<Vec<(Vec<u8>, String, String)>>; 2],
    events: Vec<Event>,
    emitted: [BTreeSet<Skel>; 2],
    facts: WireFacts,
    ids: Vec<Certificate>,         // man-in-the-middle identities
    known_keys: Vec<(Vec<u8>, VerifyingKey)>, // (leaf DER, key) of every certificate the harness knows
    client_random: Vec<u8>,
    server_random_delivered: Vec<u8>,
    sr_term: String,
    last_cert_to_client: Option<Vec<u8>>,
    junk: i128,
    rule_hits: Vec<usize>,
}

fn dir_idx(d: Dir) -> usize { if d == Dir::AtoB { 0 } else { 1 } }
fn to_side(d: Dir) -> Side { if d == Dir::AtoB { Side::Server } else { Side::Client } }

pub fn fp_of_der(der: &[u8]) -> String {
    Sha256::digest(der).iter().map(|b| format!("{:02X}", b)).collect::<Vec<_>>().join(":")
}

fn skel_of(r: &Rec) -> Skel {
    let msgs = if r.ct == CT_HANDSHAKE && r.epoch == 0 { parse_frags(&r.payload).iter().map(|f| (f.ty, f.mseq)).collect() } else { vec![] };
    (r.epoch, r.seq, r.ct, msgs)
}

fn signing_key(c: &Certificate) -> SigningKey { SigningKey::from_pkcs8_pem(&c.private_key).expect("pem") }

impl Shared {
    fn fresh(&mut self) -> i128 { self.junk += 1; self.junk }

    /// apply tamper operations to one plaintext handshake record / sealed record; returns bytes + xform terms
    fn tamper(&mut self, rec: &Rec, tams: &[Tam]) -> (Rec, Vec<String>) {
        let mut r = rec.clone();
        let mut xs = vec![];
        for t in tams {
            if *t == Tam::Corrupt {
                if r.epoch > 0 && !r.payload.is_empty() {
                    let n = r.payload.len();
                    r.payload[n - 1] ^= 0x01;
                    xs.push("XCorrupt".to_string());
                }
                continue;
            }
            if r.ct != CT_HANDSHAKE || r.epoch != 0 { continue; }
            let mut frs = parse_frags(&r.payload);
            if frs.len() != 1 || frs[0].off != 0 || frs[0].len != frs[0].total { continue; }
            let f = &mut frs[0];
            match t {
                Tam::SetCert(k) if f.ty == HT_CERTIFICATE => {
                    f.body = encode_certificate(&[self.ids[*k].certificate[0].clone()]);
                    xs.push(format!("XSetCert (mitm_cert {})", k));
                }
                Tam::AppendCert(k) if f.ty == HT_CERTIFICATE => {
                    if let Some(mut chain) = parse_certificate(&f.body) {
                        chain.push(self.ids[*k].certificate[0].clone());
                        f.body = encode_certificate(&chain);
                        xs.push(format!("XAppendCert (mitm_cert {})", k));
                    }
                }
                Tam::Resign(k) if f.ty == HT_SERVER_KEY_EXCHANGE => {
                    if let Some(mut s) = parse_ske(&f.body) {
                        let m = ske_signed_content(&self.client_random, &self.server_random_delivered, &s);
                        let sig: Signature = signing_key(&self.ids[*k]).sign(&m);
                        s.signature = sig.to_der().as_bytes().to_vec();
                        f.body = encode_ske(&s);
                        xs.push(format!("XResign (mitm_sk {}) client_rand ({})", k, self.sr_term));
                    }
                }
                Tam::FlipRandom if f.ty == HT_CLIENT_HELLO || f.ty == HT_SERVER_HELLO => {
                    f.body[2 + 7] ^= 0x10;
                    let j = self.fresh();
                    xs.push(format!("XSetRandom (junk {})", j));
                }
                Tam::FlipSid if f.ty == HT_SERVER_HELLO => {
                    f.body[2 + 32 + 1 + 3] ^= 0x10;
                    let j = self.fresh();
                    xs.push(format!("XSetSid (junk {})", j));
                }
                Tam::FlipPub if f.ty == HT_SERVER_KEY_EXCHANGE => {
                    f.body[4 + 10] ^= 0x04;
                    let j = self.fresh();
                    xs.push(format!("XSetPub (junk {})", j));
                }
                Tam::FlipPub if f.ty == HT_CLIENT_KEY_EXCHANGE => {
                    f.body[1 + 10] ^= 0x04;
                    let j = self.fresh();
                    xs.push(format!("XSetPub (junk {})", j));
                }
                Tam::FlipSig if f.ty == HT_SERVER_KEY_EXCHANGE => {
                    let n = f.body.len();
                    f.body[n - 2] ^= 0x20;
                    let j = self.fresh();
                    xs.push(format!("XSetSig (junk {})", j));
                }
                Tam::SetSeq(n) => {
                    f.mseq = *n;
                    xs.push(format!("XSetSeq {}", n));
                }
                Tam::StripEms | Tam::StripSrtp if f.ty == HT_SERVER_HELLO => {
                    if let Some(mut h) = parse_server_hello(&f.body) {
                        let drop_ty: u16 = if *t == Tam::StripEms { 23 } else { 14 };
                        let mut e = vec![];
                        for (ty, data) in parse_extensions(&h.extensions) {
                            if ty != drop_ty {
                                e.extend_from_slice(&ty.to_be_bytes());
                                e.extend_from_slice(&(data.len() as u16).to_be_bytes());
                                e.extend_from_slice(&data);
                            }
                        }
                        h.extensions = e;
                        f.body = encode_server_hello(&h);
                        xs.push(if *t == Tam::StripEms { "XSetEms false".to_string() } else { "XSetProfile None".to_string() });
                    }
                }
                Tam::Garble if f.ty == HT_CLIENT_KEY_EXCHANGE => {
                    f.body[0] = 0xFF;
                    xs.push("XGarble".to_string());
                }
                _ => {}
            }
            f.total = f.body.len() as u32;
            f.len = f.body.len() as u32;
            r.payload = encode_frag(f);
        }
        (r, xs)
    }

    fn forge(&mut self, f: &Forge) -> (Vec<u8>, String, String) {
        let j = self.fresh();
        match f {
            Forge::PlainFinished(ms) => {
                let r = hs_record(0, 70 + j as u64, &[whole(HT_FINISHED, *ms, vec![0xAB; 12])]);
                (encode_record(&r), format!("DForge (mkRec 0 {} None (KHandshake [mkFrag 20 {} 12 0 12 (CWhole (BFinished (junk {})))]))", 70 + j, ms, j),
                 format!("forged plaintext Finished mseq {}", ms))
            }
            Forge::PlainFinishedLen(ms, n) => {
                let r = hs_record(0, 70 + j as u64, &[whole(HT_FINISHED, *ms, vec![0xAB; *n])]);
                (encode_record(&r), format!("DForge (mkRec 0 {} None (KHandshake [mkFrag 20 {} {} 0 {} (CWhole (BFinished (junk {})))]))", 70 + j, ms, n, n, j),
                 format!("forged plaintext Finished mseq {} with a {}-byte verify_data", ms, n))
            }
            Forge::PlainAppData => {
                let r = Rec { ct: CT_APPDATA, ver: (254, 253), epoch: 0, seq: 70 + j as u64, payload: b"evil".to_vec() };
                (encode_record(&r), format!("DForge (mkRec 0 {} None (KAppData (junk {})))", 70 + j, j), "forged plaintext ApplicationData".into())
            }
            Forge::Hvr(ms) => {
                let r = hs_record(0, 70 + j as u64, &[whole(HT_HELLO_VERIFY, *ms, vec![254, 253, 4, 1, 2, 3, 4])]);
                (encode_record(&r), format!("DForge (mkRec 0 {} None (KHandshake [mkFrag 3 {} 7 0 7 (CWhole (BHelloVerify (junk {})))]))", 70 + j, ms, j),
                 format!("forged HelloVerifyRequest mseq {}", ms))
            }
            Forge::PlainCloseNotify => {
                let r = Rec { ct: CT_ALERT, ver: (254, 253), epoch: 0, seq: 70 + j as u64, payload: vec![1, 0] };
                (encode_record(&r), format!("DForge (mkRec 0 {} None (KAlert (Some 0)))", 70 + j), "forged plaintext close_notify".into())
            }
            Forge::GarbageHs(ty, ms) => {
                let r = hs_record(0, 70 + j as u64, &[whole(*ty, *ms, vec![0xFF])]);
                (encode_record(&r), format!("DForge (mkRec 0 {} None (KHandshake [mkFrag {} {} 1 0 1 (CWhole BGarbled)]))", 70 + j, ty, ms),
                 format!("forged undecodable handshake type {} mseq {}", ty, ms))
            }
            Forge::Certificate(k, ms) => {
                let body = encode_certificate(&[self.ids[*k].certificate[0].clone()]);
                let n = body.len();
                let r = hs_record(0, 70 + j as u64, &[whole(HT_CERTIFICATE, *ms, body)]);
                (encode_record(&r), format!("DForge (mkRec 0 {} None (KHandshake [mkFrag 11 {} {} 0 {} (CWhole (BCertificate [mitm_cert {}]))]))", 70 + j, ms, n, n, k),
                 format!("forged Certificate of identity {} mseq {}", k, ms))
            }
            Forge::SealedGarbage => {
                let r = Rec { ct: CT_HANDSHAKE, ver: (254, 253), epoch: 1, seq: 70 + j as u64, payload: vec![0x5A; 40] };
                (encode_record(&r), format!("DForge (mkRec 1 {} (Some (junk {}, junk {})) KOther)", 70 + j, j, j), "forged sealed garbage".into())
            }
        }
    }

    /// bookkeeping on what actually reaches an endpoint (after tampering)
    fn note_delivery(&mut self, to: Side, bytes: &[u8]) {
        for r in parse_records(bytes) {
            if r.ct == CT_APPDATA && r.epoch == 0 {
                match to { Side::Client => self.facts.plain_appdata_to_client += 1, Side::Server => self.facts.plain_appdata_to_server += 1 }
            }
            if r.ct != CT_HANDSHAKE || r.epoch != 0 { continue; }
            for f in parse_frags(&r.payload) {
                if f.off != 0 || f.len != f.total { continue; }
                match (to, f.ty) {
                    (Side::Client, HT_SERVER_HELLO) => {
                        if let Some(h) = parse_server_hello(&f.body) { self.server_random_delivered = h.random; }
                    }
                    (Side::Client, HT_CERTIFICATE) => {
                        if let Some(cs) = parse_certificate(&f.body) {
                            if let Some(leaf) = cs.first() {
                                self.facts.certs_to_client.push(fp_of_der(leaf));
                                self.last_cert_to_client = Some(leaf.clone());
                            }
                        }
                    }
                    (Side::Server, HT_CERTIFICATE) => {
                        if let Some(cs) = parse_certificate(&f.body) {
                            if let Some(leaf) = cs.first() { self.facts.certs_to_server.push(fp_of_der(leaf)); }
                        }
                    }
                    (Side::Client, HT_CERTIFICATE_REQUEST) => self.facts.client_cert_requested = true,
                    (Side::Client, HT_SERVER_KEY_EXCHANGE) => {
                        let ok = (|| {
                            let s = parse_ske(&f.body)?;
                            let leaf = self.last_cert_to_client.clone()?;
                            let vk = self.known_keys.iter().find(|(d, _)| *d == leaf).map(|(_, k)| *k)?;
                            let sig = Signature::from_der(&s.signature).ok()?;
                            let m = ske_signed_content(&self.client_random, &self.server_random_delivered, &s);
                            Some(vk.verify(&m, &sig).is_ok())
                        })().unwrap_or(false);
                        self.facts.ske_sig_ok.push(ok);
                    }
                    _ => {}
                }
            }
        }
    }

    fn on_datagram(&mut self, dir: Dir, pkt: &[u8]) -> Verdict {
        let now = self.t0.elapsed().as_secs_f64();
        let recs = parse_records(pkt);
        let to = to_side(dir);
        let from_client = dir == Dir::AtoB;
        if recs.len() != 1 {
            // the crate sends one record per datagram; anything else is forwarded verbatim
            return vec![(Duration::ZERO, pkt.to_vec())];
        }
        let rec = &recs[0];
        let kind = kind_of(rec);
        self.emitted[dir_idx(dir)].insert(skel_of(rec));
        if kind == Kind::APP {
            return vec![(Duration::ZERO, pkt.to_vec())]; // accounted for by the GApp events
        }
        if kind == Kind::CH {
            if let Some(f) = parse_frags(&rec.payload).first() {
                if let Some(h) = parse_client_hello(&f.body) { self.client_random = h.random; }
            }
        }
        let n = { let e = self.seen.entry((from_client, kind)).or_insert(0); let v = *e; *e += 1; v };
        let matching: Vec<(usize, Rule)> = self.rules.iter().cloned().enumerate()
            .filter(|(_, r)| r.dir == dir && r.kind == kind && match r.occ { Occ::All => true, Occ::Nth(k) => k == n }).collect();
        for (i, _) in &matching { self.rule_hits[*i] += 1; }
        // 1. tampering
        let mut cur = rec.clone();
        let mut xs: Vec<String> = vec![];
        for (_, r) in &matching {
            if let Act::Tamper(ts) = &r.act {
                let (r2, x2) = self.tamper(&cur, ts);
                cur = r2;
                xs.extend(x2);
            }
        }
        if kind == Kind::SH {
            // remember the server random as the client will see it (for a re-signing man in the middle)
            self.sr_term = xs.iter().rev().find(|x| x.starts_with("XSetRandom")).map(|x| x["XSetRandom ".len()..].trim_matches(|c| c == '(' || c == ')').to_string())
                .map(|s| s).unwrap_or_else(|| "server_rand".to_string());
            if let Some(f) = parse_frags(&cur.payload).first() {
                if let Some(h) = parse_server_hello(&f.body) { self.server_random_delivered = h.random; }
            }
        }
        let xs_term = format!("[{}]", xs.join("; "));
        let base_term = format!("DRef {} {} {}", rec.epoch, rec.seq, xs_term);
        let base_human = format!("{:?}#{}{}", kind, n, if xs.is_empty() { String::new() } else { format!(" tampered {}", xs_term) });
        // 2. one fault
        let fault = matching.iter().find(|(_, r)| !matches!(r.act, Act::Tamper(_))).map(|(_, r)| r.act.clone());
        let mut outs: Vec<(Duration, Vec<u8>, String, String)> = vec![];
        let whole_bytes = encode_record(&cur);
        let mut hold = false;
        match fault {
            None => outs.push((Duration::ZERO, whole_bytes, base_term, base_human)),
            Some(Act::Drop) => {}
            Some(Act::Dup) => {
                outs.push((Duration::ZERO, whole_bytes.clone(), base_term.clone(), base_human.clone()));
                outs.push((Duration::ZERO, whole_bytes, base_term, format!("{} (dup)", base_human)));
            }
            Some(Act::DelayMs(ms)) => outs.push((Duration::from_millis(ms), whole_bytes, base_term, format!("{} (delayed {} ms)", base_human, ms))),
            Some(Act::Swap) => { hold = true; outs.push((Duration::ZERO, whole_bytes, base_term, format!("{} (swapped)", base_human))); }
            Some(Act::Frag { cuts, order }) => {
                let frs = parse_frags(&cur.payload);
                if cur.ct == CT_HANDSHAKE && cur.epoch == 0 && frs.len() == 1 && frs[0].len == frs[0].total
                    && cuts.iter().all(|c| *c > 0 && *c < frs[0].body.len()) && cuts.windows(2).all(|w| w[0] < w[1]) {
                    let parts = split_frag(&frs[0], &cuts);
                    for &i in &order {
                        let p = &parts[i];
                        let hi = if i + 1 == parts.len() { "None".to_string() } else { format!("(Some {})", p.off + p.len) };
                        let mut x = xs.clone();
                        x.push(format!("XSlice {} {} {} {}", p.off, hi, p.total, p.len));
                        outs.push((Duration::ZERO, encode_record(&hs_record(0, cur.seq, &[p.clone()])),
                                   format!("DRef {} {} [{}]", rec.epoch, rec.seq, x.join("; ")),
                                   format!("{} fragment {}/{} bytes {}..{}", base_human, i, parts.len(), p.off, p.off + p.len)));
                    }
                } else {
                    outs.push((Duration::ZERO, whole_bytes, base_term, base_human));
                }
            }
            Some(Act::Then(fs)) => {
                outs.push((Duration::ZERO, whole_bytes, base_term, base_human));
                for f in &fs {
                    let (b, t, h) = self.forge(f);
                    outs.push((Duration::ZERO, b, t, h));
                }
            }
            Some(Act::Tamper(_)) => unreachable!(),
        }
        let di = dir_idx(dir);
        if hold {
            let h: Vec<(Vec<u8>, String, String)> = outs.into_iter().map(|(_, b, t, h)| (b, t, h)).collect();
            match &mut self.held[di] { Some(v) => v.extend(h), None => self.held[di] = Some(h) }
            return vec![];
        }
        if let Some(h) = self.held[di].take() {
            // a held (swapped) datagram goes out right after the first datagram forwarded behind it
            if outs.iter().any(|o| o.0.is_zero()) {
                for (b, t, hu) in h { outs.push((Duration::ZERO, b, t, hu)); }
            } else {
                self.held[di] = Some(h);
            }
        }
        let mut verdict = vec![];
        for (k, (d, b, t, h)) in outs.into_iter().enumerate() {
            self.note_delivery(to, &b);
            self.events.push(Event { t: now + d.as_secs_f64() + (k as f64) * 1e-6, term: format!("GDeliver {} [{}]", to.term(), t), human: format!("-> {:?}: {}", to, h) });
            verdict.push((d, b));
        }
        verdict
    }
}

pub struct Outcome {
    pub script: Script,
    pub events: Vec<Event>,
    pub cstate: i128,
    pub sstate: i128,
    pub agree: i128,            // 0 not both connected, 1 both connected & identical, 2 split brain
    pub cprofile: i128,
    pub sprofile: i128,
    pub cup: usize,
    pub sup: usize,
    pub csent: Vec<Skel>,
    pub ssent: Vec<Skel>,
    pub facts: WireFacts,
    pub export_c: Option<Vec<u8>>,
    pub export_s: Option<Vec<u8>>,
    pub app_c2s_ok: Option<bool>,   // None: client was not Connected so nothing was sent
    pub app_s2c_ok: Option<bool>,
    pub expected_client_fp: Option<String>,
    pub expected_server_fp: Option<String>,
    pub server_cert_fp: String,
    pub client_cert_fp: String,
    pub rule_hits: Vec<usize>,
    pub elapsed: f64,
    pub client_connected_at: Option<f64>,
    pub server_connected_at: Option<f64>,
    /// the forged plaintext payload ("evil") reached the application on the client / server
    pub evil_up_c: bool,
    pub evil_up_s: bool,
}

fn state_code(s: &DtlsState) -> i128 {
    match s { DtlsState::New => 0, DtlsState::Handshaking => 1, DtlsState::Connected(..) => 2, DtlsState::Failed => 3, DtlsState::Closed => 4 }
}
fn profile_code(s: &DtlsState) -> i128 {
    match s { DtlsState::Connected(_, Some(p)) => *p as i128, DtlsState::Connected(_, None) => -1, _ => -2 }
}
fn terminal(s: &DtlsState) -> bool { matches!(s, DtlsState::Connected(..) | DtlsState::Failed | DtlsState::Closed) }

async fn drain(rx: &mut mpsc::UnboundedReceiver<Bytes>) -> Vec<Bytes> {
    let mut v = vec![];
    while let Ok(b) = rx.try_recv() { v.push(b); }
    v
}

pub async fn run_script(script: Script) -> Outcome {
    let t0 = Instant::now();
    let ids: Vec<Certificate> = (0..2).map(|_| generate_certificate().unwrap()).collect();
    let cert_c = generate_certificate().unwrap();
    let cert_s = generate_certificate().unwrap();
    let mut known_keys = vec![];
    for c in ids.iter().chain([&cert_c, &cert_s]) {
        known_keys.push((c.certificate[0].clone(), *signing_key(c).verifying_key()));
    }
    let shared = Arc::new(parking_lot::Mutex::new(Shared {
        t0, rules: script.rules.clone(), seen: HashMap::new(), held: [None, None], events: vec![],
        emitted: [BTreeSet::new(), BTreeSet::new()], facts: WireFacts::default(), ids: ids.clone(), known_keys,
        client_random: vec![], server_random_delivered: vec![], sr_term: "server_rand".into(), last_cert_to_client: None,
        junk: 0, rule_hits: vec![0; script.rules.len()],
    }));
    let closed = Arc::new(AtomicBool::new(false));
    let (sh2, cl2) = (shared.clone(), closed.clone());
    let policy: Policy = Box::new(move |dir, _n, pkt| {
        if cl2.load(Ordering::SeqCst) { return vec![]; }
        sh2.lock().on_datagram(dir, pkt)
    });
    let sa = Arc::new(UdpSocket::bind("127.0.0.1:0").await.unwrap());
    let sb = Arc::new(UdpSocket::bind("127.0.0.1:0").await.unwrap());
    let (a, b) = (sa.local_addr().unwrap(), sb.local_addr().unwrap());
    let px = Proxy::new(a, b, policy).await;
    let ep_a = Endpoint::with_socket(sa, px.b_side);
    let ep_b = Endpoint::with_socket(sb, px.a_side);
    let wrong = "00:11:22:33:44:55:66:77:88:99:AA:BB:CC:DD:EE:FF:00:11:22:33:44:55:66:77:88:99:AA:BB:CC:DD:EE:FF".to_string();
    let fp_s = fingerprint(&cert_s);
    let fp_c = fingerprint(&cert_c);
    let pick = |e: Expect, right: &String| -> Option<String> { match e {
        Expect::None => None, Expect::Right => Some(right.clone()), Expect::Wrong => Some(wrong.clone()),
        Expect::Truncated(n) => Some(right[..n.min(right.len())].to_string()),
        Expect::WrongPrefix => Some(if right.starts_with("00") { "11".to_string() } else { "00".to_string() }),
    } };
    let exp_c = pick(script.cexp, &fp_s);
    let exp_s = pick(script.sexp, &fp_c);
    let (server, mut srx, srun) = DtlsTransport::new(ep_b.conn.clone(), cert_s.clone(), false, 1500, exp_s.clone()).await.unwrap();
    let srun = tokio::spawn(srun);
    let (client, mut crx, crun) = DtlsTransport::new(ep_a.conn.clone(), cert_c.clone(), true, 1500, exp_c.clone()).await.unwrap();
    let crun = tokio::spawn(crun);

    // observation window
    let window = Duration::from_millis(script.window_ms);
    let min_wait = Duration::from_millis(script.max_delay_ms() + if script.max_delay_ms() > 0 { 400 } else { 0 });
    let mut c_at = None;
    let mut s_at = None;
    loop {
        let (cs, ss) = (client.get_state(), server.get_state());
        let el = t0.elapsed();
        if c_at.is_none() && matches!(cs, DtlsState::Connected(..)) { c_at = Some(el.as_secs_f64()); }
        if s_at.is_none() && matches!(ss, DtlsState::Connected(..)) { s_at = Some(el.as_secs_f64()); }
        let both_conn = matches!(cs, DtlsState::Connected(..)) && matches!(ss, DtlsState::Connected(..));
        let any_dead = matches!(cs, DtlsState::Failed | DtlsState::Closed) || matches!(ss, DtlsState::Failed | DtlsState::Closed);
        if el >= window { break; }
        if el >= min_wait && (both_conn || (any_dead && el >= Duration::from_millis(600))) { break; }
        tokio::time::sleep(Duration::from_millis(10)).await;
    }
    // settle: let in-flight datagrams land
    tokio::time::sleep(Duration::from_millis(60)).await;
    // application data each way from every Connected side
    let t_app = t0.elapsed().as_secs_f64();
    let c_conn = matches!(client.get_state(), DtlsState::Connected(..));
    let s_conn = matches!(server.get_state(), DtlsState::Connected(..));
    let mut cup = drain(&mut crx).await;
    let mut sup = drain(&mut srx).await;
    if c_conn { let _ = client.send(Bytes::from_static(b"app-c2s")).await; }
    tokio::time::sleep(Duration::from_millis(120)).await;
    let t_app2 = t0.elapsed().as_secs_f64();
    sup.extend(drain(&mut srx).await);
    if s_conn { let _ = server.send(Bytes::from_static(b"app-s2c")).await; }
    tokio::time::sleep(Duration::from_millis(120)).await;
    cup.extend(drain(&mut crx).await);
    closed.store(true, Ordering::SeqCst);
    tokio::time::sleep(Duration::from_millis(60)).await;
    cup.extend(drain(&mut crx).await);
    sup.extend(drain(&mut srx).await);

    let (cs, ss) = (client.get_state(), server.get_state());
    let export_c = client.export_keying_material("EXTRACTOR-dtls_srtp", 60).ok();
    let export_s = server.export_keying_material("EXTRACTOR-dtls_srtp", 60).ok();
    let agree = match (&cs, &ss) {
        (DtlsState::Connected(k1, p1), DtlsState::Connected(k2, p2)) => {
            if k1.keys == k2.keys && p1 == p2 && export_c.is_some() && export_c == export_s { 1 } else { 2 }
        }
        _ => 0,
    };
    let mut sh = shared.lock();
    let mut events = sh.events.clone();
    events.push(Event { t: t_app, term: "GApp Client (A 77)".into(), human: "client.send(app) if Connected".into() });
    events.push(Event { t: t_app2, term: "GApp Server (A 78)".into(), human: "server.send(app) if Connected".into() });
    events.sort_by(|x, y| x.t.partial_cmp(&y.t).unwrap());
    let out = Outcome {
        events,
        cstate: state_code(&cs), sstate: state_code(&ss), agree,
        cprofile: profile_code(&cs), sprofile: profile_code(&ss),
        cup: cup.len(), sup: sup.len(),
        csent: sh.emitted[0].iter().filter(|s| s.2 != CT_APPDATA).cloned().collect(),
        ssent: sh.emitted[1].iter().filter(|s| s.2 != CT_APPDATA).cloned().collect(),
        facts: std::mem::take(&mut sh.facts),
        export_c, export_s,
        app_c2s_ok: if c_conn { Some(sup.iter().any(|b| &b[..] == b"app-c2s")) } else { None },
        app_s2c_ok: if s_conn { Some(cup.iter().any(|b| &b[..] == b"app-s2c")) } else { None },
        expected_client_fp: exp_c, expected_server_fp: exp_s, server_cert_fp: fp_s, client_cert_fp: fp_c,
        rule_hits: sh.rule_hits.clone(),
        elapsed: t0.elapsed().as_secs_f64(),
        client_connected_at: c_at, server_connected_at: s_at,
        evil_up_c: cup.iter().any(|b| &b[..] == b"evil"), evil_up_s: sup.iter().any(|b| &b[..] == b"evil"),
        script,
    };
    drop(sh);
    client.close();
    server.close();
    crun.abort();
    srun.abort();
    drop(px);
    drop(ep_a);
    drop(ep_b);
    out
}

fn skel_term(s: &Skel) -> String {
    format!("({}, {}, {}, [{}])", s.0, s.1, s.2, s.3.iter().map(|(t, m)| format!("({}, {})", t, m)).collect::<Vec<_>>().join("; "))
}

impl Outcome {
    pub fn term(&self) -> String {
        let z = |n: i128| if n < 0 { format!("({})", n) } else { n.to_string() };
        format!("mkCase {} {} [{}] (mkObs {} {} {} {} {} {} {} [{}] [{}])",
            self.script.cexp.code(), self.script.sexp.code(),
            self.events.iter().map(|e| e.term.clone()).collect::<Vec<_>>().join("; "),
            self.cstate, self.sstate, self.agree, z(self.cprofile), z(self.sprofile), self.cup, self.sup,
            self.csent.iter().map(skel_term).collect::<Vec<_>>().join("; "),
            self.ssent.iter().map(skel_term).collect::<Vec<_>>().join("; "))
    }
    pub fn json(&self) -> serde_json::Value {
        let sn = |c: i128| ["New", "Handshaking", "Connected", "Failed", "Closed"][c as usize];
        json!({"script": self.script.json(), "client": sn(self.cstate), "server": sn(self.sstate), "agree": self.agree,
               "profiles": [self.cprofile, self.sprofile], "app_up": [self.cup, self.sup],
               "app_c2s_ok": self.app_c2s_ok, "app_s2c_ok": self.app_s2c_ok,
               "client_connected_at_s": self.client_connected_at, "server_connected_at_s": self.server_connected_at,
               "delivered": self.events.iter().map(|e| format!("{:.3} {}", e.t, e.human)).collect::<Vec<_>>(),
               "rule_hits": self.rule_hits, "elapsed_s": self.elapsed})
    }
    pub fn both_connected(&self) -> bool { self.cstate == 2 && self.sstate == 2 }
}

/// run scripts concurrently (each on its own pair), `par` at a time, preserving order
pub async fn run_all(scripts: Vec<Script>, par: usize) -> Vec<Outcome> {
    use futures::stream::StreamExt;
    futures::stream::iter(scripts.into_iter().map(|s| tokio::spawn(run_script(s))))
        .buffered(par)
        .map(|r| r.expect("script task panicked"))
        .collect::<Vec<_>>()
        .await
}
