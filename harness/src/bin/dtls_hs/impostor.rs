//! A minimal DTLS 1.2 server (ECDHE-ECDSA / AES-128-GCM, extended master secret) written from the
//! RFCs on RustCrypto primitives, played by the harness itself against a real rustrtc client.
//! It completes the handshake with ITS OWN ephemeral key, so a client that skips a check really
//! ends up Connected to it.  Modes: genuine (control: must connect), stolen certificate (presents the
//! pinned certificate, signs with another key), own certificate (fingerprint mismatch), bad Finished.
#![allow(dead_code)]
use super::*;
use aes_gcm::aead::{Aead, KeyInit, Payload};
use aes_gcm::{Aes128Gcm, Nonce};
use hmac::{Hmac, Mac};
use p256::ecdsa::signature::Signer;
use p256::ecdsa::{Signature, SigningKey};
use p256::pkcs8::DecodePrivateKey;
use rustrtc::transports::dtls::{fingerprint, generate_certificate, DtlsState, DtlsTransport};
use sha2::{Digest, Sha256};
use std::sync::Arc;
use std::time::{Duration, Instant};
use tokio::net::UdpSocket;
use vh::net::Endpoint;

#[derive(Clone, Copy, Debug, PartialEq)]
pub enum Mode { Genuine, StolenCert, OwnCert, BadFinished, ChainStolen, TruncatedFinished(usize) }

pub struct ImpostorOutcome {
    pub mode: Mode,
    pub pin_prefix: Option<usize>,
    pub client_state: i128,
    pub client_exported: bool,
    pub impostor_finished_sent: bool,
    pub client_finished_ok: Option<bool>,
    pub app_from_impostor_delivered: bool,
    pub elapsed: f64,
}

fn prf(secret: &[u8], label: &[u8], seed: &[u8], n: usize) -> Vec<u8> {
    let mut ls = label.to_vec();
    ls.extend_from_slice(seed);
    let mac = |data: &[&[u8]]| -> Vec<u8> {
        let mut m = <Hmac<Sha256> as hmac::digest::KeyInit>::new_from_slice(secret).unwrap();
        for d in data { m.update(d); }
        m.finalize().into_bytes().to_vec()
    };
    let mut a = mac(&[&ls]);
    let mut out = vec![];
    while out.len() < n {
        out.extend_from_slice(&mac(&[&a, &ls]));
        a = mac(&[&a]);
    }
    out.truncate(n);
    out
}

fn aad(epoch: u16, seq: u64, ct: u8, len: usize) -> Vec<u8> {
    let mut a = (((epoch as u64) << 48) | seq).to_be_bytes().to_vec();
    a.push(ct);
    a.extend_from_slice(&[254, 253]);
    a.extend_from_slice(&(len as u16).to_be_bytes());
    a
}

fn seal(key: &[u8], iv: &[u8], epoch: u16, seq: u64, ct: u8, pt: &[u8]) -> Vec<u8> {
    let explicit = (((epoch as u64) << 48) | seq).to_be_bytes();
    let mut n = iv.to_vec();
    n.extend_from_slice(&explicit);
    let c = Aes128Gcm::new_from_slice(key).unwrap().encrypt(Nonce::from_slice(&n), Payload { msg: pt, aad: &aad(epoch, seq, ct, pt.len()) }).unwrap();
    let mut out = explicit.to_vec();
    out.extend_from_slice(&c);
    out
}

fn open(key: &[u8], iv: &[u8], r: &Rec) -> Option<Vec<u8>> {
    if r.payload.len() < 24 { return None; }
    let mut n = iv.to_vec();
    n.extend_from_slice(&r.payload[..8]);
    let body = &r.payload[8..];
    Aes128Gcm::new_from_slice(key).unwrap().decrypt(Nonce::from_slice(&n), Payload { msg: body, aad: &aad(r.epoch, r.seq, r.ct, body.len() - 16) }).ok()
}

pub async fn run(mode: Mode) -> ImpostorOutcome { run_pinned(mode, None).await }

/// `pin_prefix`: the client is pinned to only the first n characters of the genuine fingerprint string
pub async fn run_pinned(mode: Mode, pin_prefix: Option<usize>) -> ImpostorOutcome {
    let t0 = Instant::now();
    let genuine = generate_certificate().unwrap();     // the identity promised by signalling
    let other = generate_certificate().unwrap();       // the impostor's own identity
    let sock = UdpSocket::bind("127.0.0.1:0").await.unwrap();
    let csock = Arc::new(UdpSocket::bind("127.0.0.1:0").await.unwrap());
    let ep = Endpoint::with_socket(csock, sock.local_addr().unwrap());
    let client_cert = generate_certificate().unwrap();
    let (client, mut crx, crun) = DtlsTransport::new(ep.conn.clone(), client_cert, true, 1500, Some({ let f = fingerprint(&genuine); match pin_prefix { Some(n) => f[..n.min(f.len())].to_string(), None => f } })).await.unwrap();
    let crun = tokio::spawn(crun);

    let (present, signer) = match mode {
        Mode::Genuine | Mode::BadFinished | Mode::TruncatedFinished(_) => (&genuine, &genuine),
        Mode::StolenCert | Mode::ChainStolen => (&genuine, &other),
        Mode::OwnCert => (&other, &other),
    };
    let sk = SigningKey::from_pkcs8_pem(&signer.private_key).unwrap();
    let eph = p256::ecdh::EphemeralSecret::random(&mut p256::elliptic_curve::rand_core::OsRng);
    let my_pub = p256::EncodedPoint::from(eph.public_key()).as_bytes().to_vec();
    let server_random: Vec<u8> = (0..32u8).map(|i| i.wrapping_mul(7).wrapping_add(3)).collect();

    let mut transcript: Vec<u8> = vec![];
    let mut client_random = vec![];
    let mut flight: Vec<Vec<u8>> = vec![];
    let mut keys: Option<(Vec<u8>, Vec<u8>)> = None; // (master secret, key block)
    let mut peer: Option<std::net::SocketAddr> = None;
    let mut rseq = 0u64;
    let mut fin_sent = false;
    let mut client_fin_ok = None;
    let mut buf = vec![0u8; 4096];
    let mut got_cke = false;
    let deadline = Instant::now() + Duration::from_millis(2200);
    while Instant::now() < deadline {
        let Ok(Ok((n, from))) = tokio::time::timeout(Duration::from_millis(100), sock.recv_from(&mut buf)).await else {
            if matches!(client.get_state(), DtlsState::Connected(..) | DtlsState::Failed) { break; }
            continue;
        };
        peer = Some(from);
        for r in parse_records(&buf[..n]) {
            if r.ct == CT_HANDSHAKE && r.epoch == 0 {
                for f in parse_frags(&r.payload) {
                    if f.ty == HT_CLIENT_HELLO && flight.is_empty() {
                        let Some(h) = parse_client_hello(&f.body) else { continue };
                        client_random = h.random.clone();
                        transcript.extend_from_slice(&encode_frag(&f));
                        let sh = Hello { ver: (254, 253), random: server_random.clone(), session_id: vec![9; 32], cookie: vec![], suites: vec![0xC0, 0x2B], compression: vec![0],
                            extensions: vec![0x00, 0x0b, 0x00, 0x02, 0x01, 0x00, 0xff, 0x01, 0x00, 0x01, 0x00, 0x00, 0x17, 0x00, 0x00, 0x00, 0x0e, 0x00, 0x05, 0x00, 0x02, 0x00, 0x01, 0x00] };
                        let mut ske = Ske { curve_type: 3, named_curve: 23, public_key: my_pub.clone(), sig_alg: (4, 3), signature: vec![] };
                        let sig: Signature = sk.sign(&ske_signed_content(&client_random, &server_random, &ske));
                        ske.signature = sig.to_der().as_bytes().to_vec();
                        let msgs = [whole(HT_SERVER_HELLO, 0, encode_server_hello(&sh)), whole(HT_CERTIFICATE, 1, encode_certificate(&(if mode == Mode::ChainStolen { vec![present.certificate[0].clone(), other.certificate[0].clone()] } else { vec![present.certificate[0].clone()] }))),
                            whole(HT_SERVER_KEY_EXCHANGE, 2, encode_ske(&ske)), whole(HT_SERVER_HELLO_DONE, 3, vec![])];
                        for m in &msgs {
                            transcript.extend_from_slice(&encode_frag(m));
                            flight.push(encode_record(&hs_record(0, rseq, &[m.clone()])));
                            rseq += 1;
                        }
                        for d in &flight { let _ = sock.send_to(d, from).await; }
                    } else if f.ty == HT_CLIENT_HELLO {
                        for d in &flight { let _ = sock.send_to(d, from).await; }
                    } else if f.ty == HT_CLIENT_KEY_EXCHANGE && !got_cke && !f.body.is_empty() {
                        got_cke = true;
                        transcript.extend_from_slice(&encode_frag(&f));
                        let n = f.body[0] as usize;
                        let Ok(pk) = p256::PublicKey::from_sec1_bytes(&f.body[1..1 + n.min(f.body.len() - 1)]) else { continue };
                        let pms = eph.diffie_hellman(&pk);
                        let ms = prf(pms.raw_secret_bytes(), b"extended master secret", &Sha256::digest(&transcript), 48);
                        let mut seed = server_random.clone();
                        seed.extend_from_slice(&client_random);
                        let kb = prf(&ms, b"key expansion", &seed, 40);
                        keys = Some((ms, kb));
                    }
                }
            } else if r.ct == CT_HANDSHAKE && r.epoch == 1 && !fin_sent {
                let Some((ms, kb)) = &keys else { continue };
                let Some(pt) = open(&kb[0..16], &kb[32..36], &r) else { client_fin_ok = Some(false); continue };
                let fr = parse_frags(&pt);
                let Some(f) = fr.first() else { continue };
                let want = prf(ms, b"client finished", &Sha256::digest(&transcript), 12);
                client_fin_ok = Some(f.ty == HT_FINISHED && f.body == want);
                transcript.extend_from_slice(&encode_frag(f));
                let mut vd = prf(ms, b"server finished", &Sha256::digest(&transcript), 12);
                if mode == Mode::BadFinished { vd[3] ^= 0x40; }
                if let Mode::TruncatedFinished(k) = mode { vd.truncate(k); }
                let fin = encode_frag(&whole(HT_FINISHED, 4, vd));
                let ccs = encode_record(&Rec { ct: CT_CCS, ver: (254, 253), epoch: 0, seq: rseq, payload: vec![1] });
                let rec = encode_record(&Rec { ct: CT_HANDSHAKE, ver: (254, 253), epoch: 1, seq: 0, payload: seal(&kb[16..32], &kb[36..40], 1, 0, CT_HANDSHAKE, &fin) });
                let _ = sock.send_to(&ccs, from).await;
                let _ = sock.send_to(&rec, from).await;
                fin_sent = true;
            }
        }
        if fin_sent && matches!(client.get_state(), DtlsState::Connected(..) | DtlsState::Failed) { break; }
    }
    tokio::time::sleep(Duration::from_millis(80)).await;
    // application data from the impostor under the negotiated keys
    let mut delivered = false;
    if let (Some((_, kb)), Some(p), true) = (&keys, peer, fin_sent) {
        let rec = encode_record(&Rec { ct: CT_APPDATA, ver: (254, 253), epoch: 1, seq: 1, payload: seal(&kb[16..32], &kb[36..40], 1, 1, CT_APPDATA, b"from-impostor") });
        let _ = sock.send_to(&rec, p).await;
        tokio::time::sleep(Duration::from_millis(120)).await;
        while let Ok(b) = crx.try_recv() { if &b[..] == b"from-impostor" { delivered = true; } }
    }
    let st = client.get_state();
    let out = ImpostorOutcome {
        mode, pin_prefix,
        client_state: match st { DtlsState::New => 0, DtlsState::Handshaking => 1, DtlsState::Connected(..) => 2, DtlsState::Failed => 3, DtlsState::Closed => 4 },
        client_exported: client.export_keying_material("EXTRACTOR-dtls_srtp", 60).is_ok(),
        impostor_finished_sent: fin_sent, client_finished_ok: client_fin_ok, app_from_impostor_delivered: delivered,
        elapsed: t0.elapsed().as_secs_f64(),
    };
    client.close();
    crun.abort();
    out
}
