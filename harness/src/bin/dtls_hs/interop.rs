//! rustrtc against an independent implementation: the webrtc-rs `dtls` crate as the peer, in both
//! roles, through the shared datagram proxy with ordinal-addressed faults (webrtc-rs coalesces the
//! records of a flight into one datagram, so faults address datagrams, not messages).
//! Oracle only: both ends complete, exported keying material is identical, application data flows
//! both ways, and a pinned fingerprint is honoured.
#![allow(dead_code)]
use bytes::Bytes;
use dtls::cipher_suite::CipherSuiteId;
use dtls::config::{Config, ExtendedMasterSecretType};
use dtls::conn::DTLSConn;
use dtls::crypto::Certificate as WCert;
use dtls::extension::extension_use_srtp::SrtpProtectionProfile;
use rustrtc::transports::dtls::{generate_certificate, DtlsState, DtlsTransport};
use sha2::{Digest, Sha256};
use std::sync::Arc;
use std::time::{Duration, Instant};
use tokio::net::UdpSocket;
use vh::net::{Dir, Endpoint, Policy, Proxy};
use webrtc_util::conn::{Conn, Listener};
use webrtc_util::KeyingMaterialExporter;

#[derive(Clone, Copy, Debug, PartialEq)]
pub enum Fault { None, Drop(bool, usize), Dup(bool, usize), Delay(bool, usize, u64), DropRenumber(bool, usize) } // bool: datagram sent by rustrtc

#[derive(Clone, Copy, Debug, PartialEq)]
pub enum Pin { None, Right, Wrong }

#[derive(Debug)]
pub struct InteropOutcome {
    pub rustrtc_is_client: bool,
    pub fault: Fault,
    pub pin: Pin,
    pub rustrtc_state: i128,
    pub peer_connected: bool,
    pub exporter_equal: Option<bool>,
    pub app_to_peer: bool,
    pub app_from_peer: bool,
    pub datagrams: (usize, usize), // (from rustrtc, from webrtc-rs)
    pub elapsed: f64,
    pub peer_error: Option<String>,
}

fn wconfig() -> (Config, String) {
    let cert = WCert::generate_self_signed(vec!["localhost".to_string()]).unwrap();
    let fp = Sha256::digest(&cert.certificate[0]).iter().map(|b| format!("{:02X}", b)).collect::<Vec<_>>().join(":");
    (Config {
        certificates: vec![cert],
        cipher_suites: vec![CipherSuiteId::Tls_Ecdhe_Ecdsa_With_Aes_128_Gcm_Sha256],
        srtp_protection_profiles: vec![SrtpProtectionProfile::Srtp_Aes128_Cm_Hmac_Sha1_80, SrtpProtectionProfile::Srtp_Aead_Aes_128_Gcm],
        extended_master_secret: ExtendedMasterSecretType::Request,
        insecure_skip_verify: true,
        ..Default::default()
    }, fp)
}

fn policy(fault: Fault, rustrtc_is_a: bool, counts: Arc<parking_lot::Mutex<(usize, usize)>>) -> Policy {
    let mut fresh: u64 = 100;
    let mut hs_ord = [0usize; 2];
    Box::new(move |dir, _n, pkt| {
        let from_rustrtc = (dir == Dir::AtoB) == rustrtc_is_a;
        { let mut c = counts.lock(); if from_rustrtc { c.0 += 1 } else { c.1 += 1 } }
        if pkt.first() == Some(&23) { return vec![(Duration::ZERO, pkt.to_vec())]; } // application data: never faulted
        let n = hs_ord[from_rustrtc as usize];
        hs_ord[from_rustrtc as usize] += 1;
        if let Fault::DropRenumber(r, k) = fault {
            // experiment: give every plaintext record rustrtc sends a fresh record sequence number
            if r == from_rustrtc && k == n { return vec![]; }
            let mut p = pkt.to_vec();
            if from_rustrtc && p.len() >= 13 && p[3] == 0 && p[4] == 0 { fresh += 1; p[5..11].copy_from_slice(&fresh.to_be_bytes()[2..8]); }
            return vec![(Duration::ZERO, p)];
        }
        match fault {
            Fault::Drop(r, k) if r == from_rustrtc && k == n => vec![],
            Fault::Dup(r, k) if r == from_rustrtc && k == n => vec![(Duration::ZERO, pkt.to_vec()), (Duration::ZERO, pkt.to_vec())],
            Fault::Delay(r, k, ms) if r == from_rustrtc && k == n => vec![(Duration::from_millis(ms), pkt.to_vec())],
            _ => vec![(Duration::ZERO, pkt.to_vec())],
        }
    })
}

pub async fn run(rustrtc_is_client: bool, fault: Fault, pin: Pin, window_ms: u64) -> InteropOutcome {
    let t0 = Instant::now();
    let counts = Arc::new(parking_lot::Mutex::new((0usize, 0usize)));
    let (cfg, wfp) = wconfig();
    let expect = match pin { Pin::None => None, Pin::Right => Some(wfp.clone()), Pin::Wrong => Some(wfp.replace('A', "B").replace('1', "2")) };
    let rcert = generate_certificate().unwrap();
    let rsock = Arc::new(UdpSocket::bind("127.0.0.1:0").await.unwrap());
    let raddr = rsock.local_addr().unwrap();
    let window = Duration::from_millis(window_ms);
    let mut peer_error = None;
    let conn: Option<Arc<dyn Conn + Send + Sync>>;
    let (px, ep, rdtls, mut rrx, rrun);
    let mut keep_listener = None;
    if rustrtc_is_client {
        // webrtc-rs listens; rustrtc (A) dials through the proxy
        let listener = dtls::listener::listen("127.0.0.1:0", cfg).await.unwrap();
        let saddr = listener.addr().await.unwrap();
        px = Proxy::new(raddr, saddr, policy(fault, true, counts.clone())).await;
        ep = Endpoint::with_socket(rsock, px.b_side);
        let (d, rx, run) = DtlsTransport::new(ep.conn.clone(), rcert, true, 1500, expect).await.unwrap();
        rdtls = d; rrx = rx; rrun = tokio::spawn(run);
        conn = match tokio::time::timeout(window, listener.accept()).await {
            Ok(Ok((c, _))) => Some(c),
            Ok(Err(e)) => { peer_error = Some(format!("{}", e)); None }
            Err(_) => { peer_error = Some("accept timed out".into()); None }
        };
        keep_listener = Some(listener);
    } else {
        // rustrtc (B) is the server; webrtc-rs (A) dials through the proxy
        let wsock = UdpSocket::bind("127.0.0.1:0").await.unwrap();
        let waddr = wsock.local_addr().unwrap();
        px = Proxy::new(waddr, raddr, policy(fault, false, counts.clone())).await;
        ep = Endpoint::with_socket(rsock, px.a_side);
        let (d, rx, run) = DtlsTransport::new(ep.conn.clone(), rcert, false, 1500, None).await.unwrap();
        rdtls = d; rrx = rx; rrun = tokio::spawn(run);
        wsock.connect(px.b_side).await.unwrap();
        conn = match tokio::time::timeout(window, DTLSConn::new(Arc::new(wsock), cfg, true, None)).await {
            Ok(Ok(c)) => Some(Arc::new(c) as Arc<dyn Conn + Send + Sync>),
            Ok(Err(e)) => { peer_error = Some(format!("{}", e)); None }
            Err(_) => { peer_error = Some("handshake timed out".into()); None }
        };
    }
    // wait for rustrtc to settle
    while t0.elapsed() < window && !matches!(rdtls.get_state(), DtlsState::Connected(..) | DtlsState::Failed) {
        tokio::time::sleep(Duration::from_millis(10)).await;
    }
    let st = rdtls.get_state();
    let mut app_to_peer = false;
    let mut app_from_peer = false;
    let mut exporter_equal = None;
    if let (Some(c), DtlsState::Connected(..)) = (&conn, &st) {
        let _ = rdtls.send(Bytes::from_static(b"from-rustrtc")).await;
        let mut buf = vec![0u8; 256];
        if let Ok(Ok(n)) = tokio::time::timeout(Duration::from_millis(500), c.recv(&mut buf)).await { app_to_peer = &buf[..n] == b"from-rustrtc"; }
        let _ = c.send(b"from-webrtc-rs").await;
        if let Ok(Some(b)) = tokio::time::timeout(Duration::from_millis(500), rrx.recv()).await { app_from_peer = &b[..] == b"from-webrtc-rs"; }
        let mine = rdtls.export_keying_material("EXTRACTOR-dtls_srtp", 60).ok();
        if let Some(dc) = c.as_any().downcast_ref::<DTLSConn>() {
            let theirs = dc.connection_state().await.export_keying_material("EXTRACTOR-dtls_srtp", &[], 60).await.ok();
            exporter_equal = Some(mine.is_some() && mine == theirs);
        }
    }
    let out = InteropOutcome {
        rustrtc_is_client, fault, pin,
        rustrtc_state: match st { DtlsState::New => 0, DtlsState::Handshaking => 1, DtlsState::Connected(..) => 2, DtlsState::Failed => 3, DtlsState::Closed => 4 },
        peer_connected: conn.is_some(), exporter_equal, app_to_peer, app_from_peer,
        datagrams: *counts.lock(), elapsed: t0.elapsed().as_secs_f64(), peer_error,
    };
    if let Some(c) = conn { let _ = c.close().await; }
    if let Some(l) = keep_listener.take() { let _ = l.close().await; }
    rdtls.close();
    rrun.abort();
    drop(px);
    drop(ep);
    out
}
