//! Shared by c02 / c11: an independent DTLS wire parser/encoder (records, handshake
//! fragments, message bodies) written from RFC 6347 / RFC 5246 / RFC 4492 — not the crate's
//! codecs — so that the scripted man-in-the-middle can read, tamper and re-encode plaintext
//! (epoch 0) handshake traffic of a live pair.
#![allow(dead_code)]
pub mod engine;
pub mod impostor;
pub mod interop;

pub const CT_CCS: u8 = 20;
pub const CT_ALERT: u8 = 21;
pub const CT_HANDSHAKE: u8 = 22;
pub const CT_APPDATA: u8 = 23;

pub const HT_CLIENT_HELLO: u8 = 1;
pub const HT_SERVER_HELLO: u8 = 2;
pub const HT_HELLO_VERIFY: u8 = 3;
pub const HT_CERTIFICATE: u8 = 11;
pub const HT_SERVER_KEY_EXCHANGE: u8 = 12;
pub const HT_CERTIFICATE_REQUEST: u8 = 13;
pub const HT_SERVER_HELLO_DONE: u8 = 14;
pub const HT_CERTIFICATE_VERIFY: u8 = 15;
pub const HT_CLIENT_KEY_EXCHANGE: u8 = 16;
pub const HT_FINISHED: u8 = 20;

#[derive(Clone, Debug, PartialEq)]
pub struct Rec {
    pub ct: u8,
    pub ver: (u8, u8),
    pub epoch: u16,
    pub seq: u64,
    pub payload: Vec<u8>,
}

#[derive(Clone, Debug, PartialEq)]
pub struct Frag {
    pub ty: u8,
    pub total: u32,
    pub mseq: u16,
    pub off: u32,
    pub len: u32,
    pub body: Vec<u8>,
}

pub fn parse_records(mut d: &[u8]) -> Vec<Rec> {
    let mut out = vec![];
    while d.len() >= 13 {
        let len = u16::from_be_bytes([d[11], d[12]]) as usize;
        if d.len() < 13 + len {
            break;
        }
        let mut s = [0u8; 8];
        s[2..8].copy_from_slice(&d[5..11]);
        out.push(Rec {
            ct: d[0],
            ver: (d[1], d[2]),
            epoch: u16::from_be_bytes([d[3], d[4]]),
            seq: u64::from_be_bytes(s),
            payload: d[13..13 + len].to_vec(),
        });
        d = &d[13 + len..];
    }
    out
}

pub fn encode_record(r: &Rec) -> Vec<u8> {
    let mut b = vec![r.ct, r.ver.0, r.ver.1];
    b.extend_from_slice(&r.epoch.to_be_bytes());
    b.extend_from_slice(&r.seq.to_be_bytes()[2..8]);
    b.extend_from_slice(&(r.payload.len() as u16).to_be_bytes());
    b.extend_from_slice(&r.payload);
    b
}

pub fn parse_frags(mut p: &[u8]) -> Vec<Frag> {
    let mut out = vec![];
    while p.len() >= 12 {
        let total = u32::from_be_bytes([0, p[1], p[2], p[3]]);
        let mseq = u16::from_be_bytes([p[4], p[5]]);
        let off = u32::from_be_bytes([0, p[6], p[7], p[8]]);
        let len = u32::from_be_bytes([0, p[9], p[10], p[11]]);
        if p.len() < 12 + len as usize {
            break;
        }
        out.push(Frag { ty: p[0], total, mseq, off, len, body: p[12..12 + len as usize].to_vec() });
        p = &p[12 + len as usize..];
    }
    out
}

pub fn encode_frag(f: &Frag) -> Vec<u8> {
    let mut b = vec![f.ty];
    b.extend_from_slice(&f.total.to_be_bytes()[1..4]);
    b.extend_from_slice(&f.mseq.to_be_bytes());
    b.extend_from_slice(&f.off.to_be_bytes()[1..4]);
    b.extend_from_slice(&(f.body.len() as u32).to_be_bytes()[1..4]);
    b.extend_from_slice(&f.body);
    b
}

/// an unfragmented handshake message
pub fn whole(ty: u8, mseq: u16, body: Vec<u8>) -> Frag {
    Frag { ty, total: body.len() as u32, mseq, off: 0, len: body.len() as u32, body }
}

/// split an unfragmented message at the given cut points (0 < c1 < c2 < ... < len)
pub fn split_frag(f: &Frag, cuts: &[usize]) -> Vec<Frag> {
    let mut out = vec![];
    let mut lo = 0usize;
    let mut pts: Vec<usize> = cuts.to_vec();
    pts.push(f.body.len());
    for hi in pts {
        out.push(Frag { ty: f.ty, total: f.total, mseq: f.mseq, off: lo as u32, len: (hi - lo) as u32, body: f.body[lo..hi].to_vec() });
        lo = hi;
    }
    out
}

pub fn hs_record(epoch: u16, seq: u64, frags: &[Frag]) -> Rec {
    let mut p = vec![];
    for f in frags {
        p.extend_from_slice(&encode_frag(f));
    }
    Rec { ct: CT_HANDSHAKE, ver: (254, 253), epoch, seq, payload: p }
}

// ------------------------------------------------------------------ message bodies
#[derive(Clone, Debug, PartialEq)]
pub struct Hello {
    pub ver: (u8, u8),
    pub random: Vec<u8>,
    pub session_id: Vec<u8>,
    pub cookie: Vec<u8>,        // ClientHello only
    pub suites: Vec<u8>,        // ClientHello: list bytes; ServerHello: 2 bytes
    pub compression: Vec<u8>,   // ClientHello: list; ServerHello: 1 byte
    pub extensions: Vec<u8>,
}

pub fn parse_client_hello(b: &[u8]) -> Option<Hello> {
    let mut i = 0usize;
    let take = |i: &mut usize, n: usize| -> Option<&[u8]> { if *i + n <= b.len() { let s = &b[*i..*i + n]; *i += n; Some(s) } else { None } };
    let ver = take(&mut i, 2)?; let ver = (ver[0], ver[1]);
    let random = take(&mut i, 32)?.to_vec();
    let n = take(&mut i, 1)?[0] as usize; let session_id = take(&mut i, n)?.to_vec();
    let n = take(&mut i, 1)?[0] as usize; let cookie = take(&mut i, n)?.to_vec();
    let n = take(&mut i, 2)?; let n = u16::from_be_bytes([n[0], n[1]]) as usize; let suites = take(&mut i, n)?.to_vec();
    let n = take(&mut i, 1)?[0] as usize; let compression = take(&mut i, n)?.to_vec();
    let extensions = if i + 2 <= b.len() { let n = take(&mut i, 2)?; let n = u16::from_be_bytes([n[0], n[1]]) as usize; take(&mut i, n)?.to_vec() } else { vec![] };
    Some(Hello { ver, random, session_id, cookie, suites, compression, extensions })
}

pub fn parse_server_hello(b: &[u8]) -> Option<Hello> {
    let mut i = 0usize;
    let take = |i: &mut usize, n: usize| -> Option<&[u8]> { if *i + n <= b.len() { let s = &b[*i..*i + n]; *i += n; Some(s) } else { None } };
    let ver = take(&mut i, 2)?; let ver = (ver[0], ver[1]);
    let random = take(&mut i, 32)?.to_vec();
    let n = take(&mut i, 1)?[0] as usize; let session_id = take(&mut i, n)?.to_vec();
    let suites = take(&mut i, 2)?.to_vec();
    let compression = take(&mut i, 1)?.to_vec();
    let extensions = if i + 2 <= b.len() { let n = take(&mut i, 2)?; let n = u16::from_be_bytes([n[0], n[1]]) as usize; take(&mut i, n)?.to_vec() } else { vec![] };
    Some(Hello { ver, random, session_id, cookie: vec![], suites, compression, extensions })
}

pub fn encode_server_hello(h: &Hello) -> Vec<u8> {
    let mut b = vec![h.ver.0, h.ver.1];
    b.extend_from_slice(&h.random);
    b.push(h.session_id.len() as u8);
    b.extend_from_slice(&h.session_id);
    b.extend_from_slice(&h.suites);
    b.extend_from_slice(&h.compression);
    if !h.extensions.is_empty() {
        b.extend_from_slice(&(h.extensions.len() as u16).to_be_bytes());
        b.extend_from_slice(&h.extensions);
    }
    b
}

pub fn encode_client_hello(h: &Hello) -> Vec<u8> {
    let mut b = vec![h.ver.0, h.ver.1];
    b.extend_from_slice(&h.random);
    b.push(h.session_id.len() as u8);
    b.extend_from_slice(&h.session_id);
    b.push(h.cookie.len() as u8);
    b.extend_from_slice(&h.cookie);
    b.extend_from_slice(&(h.suites.len() as u16).to_be_bytes());
    b.extend_from_slice(&h.suites);
    b.push(h.compression.len() as u8);
    b.extend_from_slice(&h.compression);
    if !h.extensions.is_empty() {
        b.extend_from_slice(&(h.extensions.len() as u16).to_be_bytes());
        b.extend_from_slice(&h.extensions);
    }
    b
}

/// (type, data) list of a TLS extensions block
pub fn parse_extensions(mut e: &[u8]) -> Vec<(u16, Vec<u8>)> {
    let mut out = vec![];
    while e.len() >= 4 {
        let t = u16::from_be_bytes([e[0], e[1]]);
        let n = u16::from_be_bytes([e[2], e[3]]) as usize;
        if e.len() < 4 + n { break; }
        out.push((t, e[4..4 + n].to_vec()));
        e = &e[4 + n..];
    }
    out
}

pub fn parse_certificate(b: &[u8]) -> Option<Vec<Vec<u8>>> {
    if b.len() < 3 { return None; }
    let total = u32::from_be_bytes([0, b[0], b[1], b[2]]) as usize;
    if b.len() < 3 + total { return None; }
    let mut c = &b[3..3 + total];
    let mut out = vec![];
    while !c.is_empty() {
        if c.len() < 3 { return None; }
        let n = u32::from_be_bytes([0, c[0], c[1], c[2]]) as usize;
        if c.len() < 3 + n { return None; }
        out.push(c[3..3 + n].to_vec());
        c = &c[3 + n..];
    }
    Some(out)
}

pub fn encode_certificate(certs: &[Vec<u8>]) -> Vec<u8> {
    let total: usize = certs.iter().map(|c| 3 + c.len()).sum();
    let mut b = (total as u32).to_be_bytes()[1..4].to_vec();
    for c in certs {
        b.extend_from_slice(&(c.len() as u32).to_be_bytes()[1..4]);
        b.extend_from_slice(c);
    }
    b
}

#[derive(Clone, Debug, PartialEq)]
pub struct Ske {
    pub curve_type: u8,
    pub named_curve: u16,
    pub public_key: Vec<u8>,
    pub sig_alg: (u8, u8),
    pub signature: Vec<u8>,
}

pub fn parse_ske(b: &[u8]) -> Option<Ske> {
    if b.len() < 4 { return None; }
    let n = b[3] as usize;
    if b.len() < 4 + n + 4 { return None; }
    let public_key = b[4..4 + n].to_vec();
    let r = &b[4 + n..];
    let sl = u16::from_be_bytes([r[2], r[3]]) as usize;
    if r.len() < 4 + sl { return None; }
    Some(Ske { curve_type: b[0], named_curve: u16::from_be_bytes([b[1], b[2]]), public_key, sig_alg: (r[0], r[1]), signature: r[4..4 + sl].to_vec() })
}

pub fn encode_ske(s: &Ske) -> Vec<u8> {
    let mut b = vec![s.curve_type];
    b.extend_from_slice(&s.named_curve.to_be_bytes());
    b.push(s.public_key.len() as u8);
    b.extend_from_slice(&s.public_key);
    b.push(s.sig_alg.0);
    b.push(s.sig_alg.1);
    b.extend_from_slice(&(s.signature.len() as u16).to_be_bytes());
    b.extend_from_slice(&s.signature);
    b
}

/// the byte string an ECDHE ServerKeyExchange signature covers (RFC 4492 §5.4)
pub fn ske_signed_content(client_random: &[u8], server_random: &[u8], s: &Ske) -> Vec<u8> {
    let mut m = vec![];
    m.extend_from_slice(client_random);
    m.extend_from_slice(server_random);
    m.push(s.curve_type);
    m.extend_from_slice(&s.named_curve.to_be_bytes());
    m.push(s.public_key.len() as u8);
    m.extend_from_slice(&s.public_key);
    m
}

pub fn describe(d: &[u8]) -> String {
    let mut s = String::new();
    for r in parse_records(d) {
        match r.ct {
            CT_HANDSHAKE if r.epoch == 0 => {
                for f in parse_frags(&r.payload) {
                    s.push_str(&format!("[hs e0 s{} ty{} mseq{} off{} len{}/{}] ", r.seq, f.ty, f.mseq, f.off, f.len, f.total));
                }
            }
            _ => s.push_str(&format!("[ct{} e{} s{} len{}] ", r.ct, r.epoch, r.seq, r.payload.len())),
        }
    }
    s
}
