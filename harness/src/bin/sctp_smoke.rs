use std::time::Duration;
use rustrtc::transports::sctp::{DataChannelConfig, DataChannelEvent};
use vh::net::sctp_wire::*;
use vh::sctp_peer::*;

#[tokio::main(flavor = "multi_thread", worker_threads = 4)]
async fn main() {
    for client in [true, false] {
        let cfg = DataChannelConfig { label: "x".into(), negotiated: Some(0), ordered: true, ..Default::default() };
        let mut u = Uut::start(UutOpts { sctp_client: client, channels: vec![(0, cfg)], ..Default::default() }).await;
        println!("client={} uut_tag={:08x} uut_tsn={} setup={}", client, u.uut_tag, u.uut_initial_tsn, u.setup_packets.len());
        let t0 = u.peer_initial_tsn;
        // two messages: one single chunk, one split in two, delivered out of order
        u.inject_chunks(&[data_chunk(t0 + 2, 0, 1, 53, 0x01, b"world")]);
        u.inject_chunks(&[data_chunk(t0, 0, 0, 53, 0x03, b"hello")]);
        u.inject_chunks(&[data_chunk(t0 + 1, 0, 1, 53, 0x02, b"big ")]);
        let dc = u.strong[0].clone();
        let evs = Uut::channel_events(&dc, Duration::from_millis(200)).await;
        for e in &evs { match e { DataChannelEvent::Message(m) => println!("  msg {:?}", String::from_utf8_lossy(m)), DataChannelEvent::Open => println!("  open"), DataChannelEvent::Close => println!("  close") } }
        let pk = u.drain(Duration::from_millis(100), Duration::from_secs(1)).await;
        for p in &pk { for c in &p.chunks { if c.ty == 3 { println!("  sack {:?} tag_ok={} crc={}", parse_sack(&c.value), p.vtag == u.peer_tag, p.checksum_ok); } else { println!("  chunk ty={}", c.ty); } } }
        u.sctp.send_data(0, &vec![7u8; 3000]).await.unwrap();
        let pk = u.drain(Duration::from_millis(100), Duration::from_secs(1)).await;
        for p in &pk { for c in &p.chunks { if let Some(d) = parse_data(c) { println!("  data tsn={} (+{}) ssn={} flags={:02x} len={} pktlen={}", d.tsn, d.tsn.wrapping_sub(u.uut_initial_tsn), d.ssn, d.flags, d.payload.len(), p.len); } } }
    }
}
