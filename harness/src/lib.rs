//! Shared helpers for the correspondence harness binaries (one bin per property).
use std::fmt::Write as _;
use std::io::Write as _;

/// splitmix64 — every random choice of a run derives from one seed.
#[derive(Clone)]
pub struct Rng(pub u64);
impl Rng {
    pub fn new(seed: u64) -> Self {
        Rng(seed ^ 0x9E37_79B9_7F4A_7C15)
    }
    pub fn next(&mut self) -> u64 {
        self.0 = self.0.wrapping_add(0x9E37_79B9_7F4A_7C15);
        let mut z = self.0;
        z = (z ^ (z >> 30)).wrapping_mul(0xBF58_476D_1CE4_E5B9);
        z = (z ^ (z >> 27)).wrapping_mul(0x94D0_49BB_1331_11EB);
        z ^ (z >> 31)
    }
    pub fn below(&mut self, n: u64) -> u64 {
        if n == 0 { 0 } else { self.next() % n }
    }
    pub fn range(&mut self, lo: u64, hi_incl: u64) -> u64 {
        lo + self.below(hi_incl - lo + 1)
    }
    pub fn chance(&mut self, num: u64, den: u64) -> bool {
        self.below(den) < num
    }
    pub fn pick<'a, T>(&mut self, xs: &'a [T]) -> &'a T {
        &xs[self.below(xs.len() as u64) as usize]
    }
    pub fn bytes(&mut self, n: usize) -> Vec<u8> {
        (0..n).map(|_| self.next() as u8).collect()
    }
}

pub struct Args {
    pub tier: String,
    pub seed: u64,
    pub out: String,
    pub replay: Option<String>,
}

pub fn parse_args() -> Args {
    let mut a = Args { tier: "quick".into(), seed: 1, out: ".".into(), replay: None };
    let v: Vec<String> = std::env::args().collect();
    let mut i = 1;
    while i < v.len() {
        match v[i].as_str() {
            "--tier" => { a.tier = v[i + 1].clone(); i += 1; }
            "--seed" => { a.seed = v[i + 1].parse().unwrap_or(1); i += 1; }
            "--out" => { a.out = v[i + 1].clone(); i += 1; }
            "--replay" => { a.replay = Some(v[i + 1].clone()); i += 1; }
            _ => {}
        }
        i += 1;
    }
    a
}

/// Gallina rendering helpers (terms are read by Coq in `Z_scope`).
pub fn z(n: i128) -> String {
    if n < 0 { format!("({})", n) } else { format!("{}", n) }
}
pub fn zlist<I: IntoIterator<Item = i128>>(xs: I) -> String {
    let mut s = String::from("[");
    let mut first = true;
    for x in xs {
        if !first { s.push_str("; "); }
        first = false;
        let _ = write!(s, "{}", z(x));
    }
    s.push(']');
    s
}
pub fn bytes_term(b: &[u8]) -> String {
    zlist(b.iter().map(|x| *x as i128))
}
pub fn list_term(items: &[String]) -> String {
    format!("[{}]", items.join("; "))
}
pub fn opt_term(o: Option<String>) -> String {
    match o { Some(s) => format!("(Some {})", s), None => "None".into() }
}
pub fn bool_term(b: bool) -> &'static str {
    if b { "true" } else { "false" }
}

/// One generated case: the Gallina term of the model-side case (input + what the
/// implementation produced), the verdict of the direct property oracle evaluated on the
/// implementation's own outputs, and bookkeeping for the evidence file.
pub struct Case {
    pub term: String,
    pub desc: serde_json::Value,
    pub oracle_fail: Option<String>,
    pub known: Option<String>,
    pub nontrivial: bool,
    pub key: String,
    pub kind: String,
}

pub struct Out {
    pub dir: String,
    pub cases: Vec<Case>,
}

impl Out {
    pub fn new(dir: &str) -> Self {
        std::fs::create_dir_all(dir).ok();
        Out { dir: dir.to_string(), cases: Vec::new() }
    }
    pub fn push(&mut self, c: Case) {
        self.cases.push(c);
    }
    /// writes terms.txt (one Gallina term per line) and cases.jsonl
    pub fn finish(self, extra: serde_json::Value) {
        let mut t = std::io::BufWriter::new(std::fs::File::create(format!("{}/terms.txt", self.dir)).unwrap());
        let mut j = std::io::BufWriter::new(std::fs::File::create(format!("{}/cases.jsonl", self.dir)).unwrap());
        for (i, c) in self.cases.iter().enumerate() {
            writeln!(t, "{}", c.term.replace('\n', " ")).unwrap();
            let o = serde_json::json!({"id": i, "desc": c.desc, "oracle_fail": c.oracle_fail, "known": c.known,
                "nontrivial": c.nontrivial, "key": c.key, "kind": c.kind});
            writeln!(j, "{}", o).unwrap();
        }
        std::fs::write(format!("{}/summary.json", self.dir), serde_json::to_string_pretty(&extra).unwrap()).unwrap();
    }
}

/// Run a closure, turning a panic into Err(message). The default panic hook is silenced.
pub fn catch<T, F: FnOnce() -> T + std::panic::UnwindSafe>(f: F) -> Result<T, String> {
    match std::panic::catch_unwind(f) {
        Ok(v) => Ok(v),
        Err(e) => Err(if let Some(s) = e.downcast_ref::<&str>() { s.to_string() }
            else if let Some(s) = e.downcast_ref::<String>() { s.clone() } else { "panic".into() }),
    }
}
pub fn silence_panics() {
    std::panic::set_hook(Box::new(|_| {}));
}

pub mod net;
pub mod sctp_peer;
