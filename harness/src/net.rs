//! Shared network infrastructure for the harness: loopback UDP endpoints wrapped in the real
//! `IceConn`, a programmable datagram proxy (drop / duplicate / delay / reorder / tamper /
//! inject), a connected DTLS pair, and SCTP wire helpers (packet builder/parser, CRC-32C) for a
//! scripted SCTP peer.
use bytes::Bytes;
use rustrtc::transports::dtls::{generate_certificate, Certificate, DtlsState, DtlsTransport};
use rustrtc::transports::ice::conn::IceConn;
use rustrtc::transports::ice::IceSocketWrapper;
use rustrtc::transports::PacketReceiver;
use std::net::SocketAddr;
use std::sync::Arc;
use std::time::Duration;
use tokio::net::UdpSocket;
use tokio::sync::{mpsc, watch};

/// A UDP socket on 127.0.0.1 wrapped in a real `IceConn`, with the socket pump the ICE layer
/// would normally provide (every datagram goes through `IceConn::receive`).
pub struct Endpoint {
    pub socket: Arc<UdpSocket>,
    pub addr: SocketAddr,
    pub conn: Arc<IceConn>,
    _sock_tx: watch::Sender<Option<IceSocketWrapper>>,
    pump: tokio::task::JoinHandle<()>,
}

impl Endpoint {
    pub async fn new(remote: SocketAddr) -> Endpoint {
        let socket = Arc::new(UdpSocket::bind("127.0.0.1:0").await.unwrap());
        Self::with_socket(socket, remote)
    }
    pub fn with_socket(socket: Arc<UdpSocket>, remote: SocketAddr) -> Endpoint {
        let addr = socket.local_addr().unwrap();
        let (tx, rx) = watch::channel(Some(IceSocketWrapper::Udp(socket.clone())));
        let conn = IceConn::new(rx, remote, None);
        let s2 = socket.clone();
        let c2 = conn.clone();
        let pump = tokio::spawn(async move {
            let mut buf = vec![0u8; 4096];
            let mut mb = Vec::new();
            loop {
                match s2.recv_from(&mut buf).await {
                    Ok((len, from)) => c2.receive(Bytes::copy_from_slice(&buf[..len]), from, &mut mb).await,
                    Err(_) => break,
                }
            }
        });
        Endpoint { socket, addr, conn, _sock_tx: tx, pump }
    }
}
impl Drop for Endpoint {
    fn drop(&mut self) {
        self.pump.abort();
    }
}

#[derive(Clone, Copy, Debug, PartialEq, Eq)]
pub enum Dir {
    /// from endpoint A (first of the pair) to endpoint B
    AtoB,
    BtoA,
}

/// What the proxy does with one datagram: a list of (delay, bytes) to forward to the addressee.
pub type Verdict = Vec<(Duration, Vec<u8>)>;
pub type Policy = Box<dyn FnMut(Dir, usize, &[u8]) -> Verdict + Send>;

pub fn forward(pkt: &[u8]) -> Verdict {
    vec![(Duration::ZERO, pkt.to_vec())]
}

/// Datagram proxy between two endpoints: A talks to `a_side`, B talks to `b_side`.
pub struct Proxy {
    pub a_side: SocketAddr, // address B must use as its remote (what B sees as "A")
    pub b_side: SocketAddr, // address A must use as its remote (what A sees as "B")
    pub log: Arc<parking_lot::Mutex<Vec<(Dir, Vec<u8>)>>>,
    inject_tx: mpsc::UnboundedSender<(Dir, Vec<u8>)>,
    tasks: Vec<tokio::task::JoinHandle<()>>,
}

impl Proxy {
    /// `a`/`b`: real addresses of the two endpoints. The policy sees every datagram with its
    /// direction and per-direction ordinal (0-based).
    pub async fn new(a: SocketAddr, b: SocketAddr, policy: Policy) -> Proxy {
        // sock_for_a: A sends here; forwarded out of sock_for_b to B (so B sees b-facing socket as source)
        let sock_for_a = Arc::new(UdpSocket::bind("127.0.0.1:0").await.unwrap());
        let sock_for_b = Arc::new(UdpSocket::bind("127.0.0.1:0").await.unwrap());
        let b_side = sock_for_a.local_addr().unwrap();
        let a_side = sock_for_b.local_addr().unwrap();
        let log = Arc::new(parking_lot::Mutex::new(Vec::new()));
        let policy = Arc::new(parking_lot::Mutex::new(policy));
        let (inject_tx, mut inject_rx) = mpsc::unbounded_channel::<(Dir, Vec<u8>)>();
        let mut tasks = vec![];
        for dir in [Dir::AtoB, Dir::BtoA] {
            let (rx_sock, tx_sock, dst) = match dir {
                Dir::AtoB => (sock_for_a.clone(), sock_for_b.clone(), b),
                Dir::BtoA => (sock_for_b.clone(), sock_for_a.clone(), a),
            };
            let policy = policy.clone();
            let log = log.clone();
            tasks.push(tokio::spawn(async move {
                let mut buf = vec![0u8; 4096];
                let mut ord = 0usize;
                loop {
                    let Ok((len, _from)) = rx_sock.recv_from(&mut buf).await else { break };
                    let pkt = buf[..len].to_vec();
                    log.lock().push((dir, pkt.clone()));
                    let verdict = (policy.lock())(dir, ord, &pkt);
                    ord += 1;
                    for (delay, bytes) in verdict {
                        let tx_sock = tx_sock.clone();
                        if delay.is_zero() {
                            let _ = tx_sock.send_to(&bytes, dst).await;
                        } else {
                            tokio::spawn(async move {
                                tokio::time::sleep(delay).await;
                                let _ = tx_sock.send_to(&bytes, dst).await;
                            });
                        }
                    }
                }
            }));
        }
        let (sa, sb) = (sock_for_a.clone(), sock_for_b.clone());
        tasks.push(tokio::spawn(async move {
            while let Some((dir, bytes)) = inject_rx.recv().await {
                match dir {
                    Dir::AtoB => { let _ = sb.send_to(&bytes, b).await; }
                    Dir::BtoA => { let _ = sa.send_to(&bytes, a).await; }
                }
            }
        }));
        Proxy { a_side, b_side, log, inject_tx, tasks }
    }
    /// deliver `bytes` to the addressee of `dir` as if the other endpoint had sent them
    pub fn inject(&self, dir: Dir, bytes: Vec<u8>) {
        let _ = self.inject_tx.send((dir, bytes));
    }
}
impl Drop for Proxy {
    fn drop(&mut self) {
        for t in &self.tasks { t.abort(); }
    }
}

pub struct DtlsSide {
    pub ep: Endpoint,
    pub dtls: Arc<DtlsTransport>,
    /// decrypted application data delivered upward by this side (taken by whoever consumes it)
    pub app_rx: Option<mpsc::UnboundedReceiver<Bytes>>,
    pub cert: Certificate,
    runner: tokio::task::JoinHandle<()>,
}
impl Drop for DtlsSide {
    fn drop(&mut self) {
        self.dtls.close();
        self.runner.abort();
    }
}

pub struct DtlsPair {
    pub client: DtlsSide,
    pub server: DtlsSide,
    pub proxy: Option<Proxy>,
}

pub async fn wait_dtls_terminal(d: &Arc<DtlsTransport>, max: Duration) -> DtlsState {
    let mut rx = d.subscribe_state();
    let deadline = tokio::time::Instant::now() + max;
    loop {
        let st = rx.borrow().clone();
        if matches!(st, DtlsState::Connected(..) | DtlsState::Failed | DtlsState::Closed) {
            return st;
        }
        let now = tokio::time::Instant::now();
        if now >= deadline {
            return st;
        }
        let _ = tokio::time::timeout(deadline - now, rx.changed()).await;
    }
}

/// Build two real DTLS transports over loopback UDP (client = A, server = B), optionally through
/// a proxy with the given policy; expected fingerprints optional per side. Does not wait.
pub async fn dtls_pair_with(
    policy: Option<Policy>,
    client_expect: Option<String>,
    server_expect: Option<String>,
) -> DtlsPair {
    let sa = Arc::new(UdpSocket::bind("127.0.0.1:0").await.unwrap());
    let sb = Arc::new(UdpSocket::bind("127.0.0.1:0").await.unwrap());
    let (a, b) = (sa.local_addr().unwrap(), sb.local_addr().unwrap());
    let (proxy, a_remote, b_remote) = match policy {
        Some(p) => {
            let px = Proxy::new(a, b, p).await;
            let (ar, br) = (px.b_side, px.a_side);
            (Some(px), ar, br)
        }
        None => (None, b, a),
    };
    let ep_a = Endpoint::with_socket(sa, a_remote);
    let ep_b = Endpoint::with_socket(sb, b_remote);
    let cert_a = generate_certificate().unwrap();
    let cert_b = generate_certificate().unwrap();
    let (server, srx, srun) = DtlsTransport::new(ep_b.conn.clone(), cert_b.clone(), false, 1500, server_expect).await.unwrap();
    let srun = tokio::spawn(srun);
    let (client, crx, crun) = DtlsTransport::new(ep_a.conn.clone(), cert_a.clone(), true, 1500, client_expect).await.unwrap();
    let crun = tokio::spawn(crun);
    DtlsPair {
        client: DtlsSide { ep: ep_a, dtls: client, app_rx: Some(crx), cert: cert_a, runner: crun },
        server: DtlsSide { ep: ep_b, dtls: server, app_rx: Some(srx), cert: cert_b, runner: srun },
        proxy,
    }
}

/// A connected DTLS pair without faults (panics if the handshake does not complete in 10 s).
pub async fn dtls_pair_connected() -> DtlsPair {
    let p = dtls_pair_with(None, None, None).await;
    let c = wait_dtls_terminal(&p.client.dtls, Duration::from_secs(10)).await;
    let s = wait_dtls_terminal(&p.server.dtls, Duration::from_secs(10)).await;
    assert!(matches!(c, DtlsState::Connected(..)) && matches!(s, DtlsState::Connected(..)), "DTLS pair did not connect");
    p
}

// ------------------------------------------------------------------------------- SCTP wire
pub mod sctp_wire {
    /// CRC-32C (Castagnoli), reflected, as RFC 4960 appendix B — independent of the crate under test.
    pub fn crc32c(data: &[u8]) -> u32 {
        let mut crc: u32 = 0xFFFF_FFFF;
        for &b in data {
            crc ^= b as u32;
            for _ in 0..8 {
                crc = if crc & 1 != 0 { (crc >> 1) ^ 0x82F6_3B78 } else { crc >> 1 };
            }
        }
        !crc
    }

    #[derive(Clone, Debug, PartialEq)]
    pub struct Chunk {
        pub ty: u8,
        pub flags: u8,
        /// value bytes (after the 4-byte chunk header), without padding
        pub value: Vec<u8>,
    }

    #[derive(Clone, Debug, PartialEq)]
    pub struct Packet {
        pub src_port: u16,
        pub dst_port: u16,
        pub vtag: u32,
        pub checksum_ok: bool,
        pub chunks: Vec<Chunk>,
        pub len: usize,
        /// false if the chunk walk hit a malformed length
        pub well_formed: bool,
    }

    pub fn build_packet(src_port: u16, dst_port: u16, vtag: u32, chunks: &[Chunk]) -> Vec<u8> {
        let mut p = Vec::new();
        p.extend_from_slice(&src_port.to_be_bytes());
        p.extend_from_slice(&dst_port.to_be_bytes());
        p.extend_from_slice(&vtag.to_be_bytes());
        p.extend_from_slice(&[0, 0, 0, 0]);
        for c in chunks {
            p.push(c.ty);
            p.push(c.flags);
            p.extend_from_slice(&((c.value.len() + 4) as u16).to_be_bytes());
            p.extend_from_slice(&c.value);
            while p.len() % 4 != 0 { p.push(0); }
        }
        let crc = crc32c(&p);
        p[8..12].copy_from_slice(&crc.to_le_bytes());
        p
    }

    pub fn parse_packet(p: &[u8]) -> Option<Packet> {
        if p.len() < 12 { return None; }
        let mut z = p.to_vec();
        let got = u32::from_le_bytes([p[8], p[9], p[10], p[11]]);
        z[8..12].copy_from_slice(&[0, 0, 0, 0]);
        let checksum_ok = crc32c(&z) == got;
        let mut chunks = vec![];
        let mut off = 12;
        let mut well_formed = true;
        while off + 4 <= p.len() {
            let len = u16::from_be_bytes([p[off + 2], p[off + 3]]) as usize;
            if len < 4 || off + len > p.len() { well_formed = false; break; }
            chunks.push(Chunk { ty: p[off], flags: p[off + 1], value: p[off + 4..off + len].to_vec() });
            off += (len + 3) & !3;
        }
        Some(Packet {
            src_port: u16::from_be_bytes([p[0], p[1]]),
            dst_port: u16::from_be_bytes([p[2], p[3]]),
            vtag: u32::from_be_bytes([p[4], p[5], p[6], p[7]]),
            checksum_ok, chunks, len: p.len(), well_formed,
        })
    }

    pub fn data_chunk(tsn: u32, sid: u16, ssn: u16, ppid: u32, flags: u8, payload: &[u8]) -> Chunk {
        let mut v = Vec::new();
        v.extend_from_slice(&tsn.to_be_bytes());
        v.extend_from_slice(&sid.to_be_bytes());
        v.extend_from_slice(&ssn.to_be_bytes());
        v.extend_from_slice(&ppid.to_be_bytes());
        v.extend_from_slice(payload);
        Chunk { ty: 0, flags, value: v }
    }

    pub fn sack_chunk(cum: u32, a_rwnd: u32, gaps: &[(u16, u16)], dups: &[u32]) -> Chunk {
        let mut v = Vec::new();
        v.extend_from_slice(&cum.to_be_bytes());
        v.extend_from_slice(&a_rwnd.to_be_bytes());
        v.extend_from_slice(&(gaps.len() as u16).to_be_bytes());
        v.extend_from_slice(&(dups.len() as u16).to_be_bytes());
        for (s, e) in gaps { v.extend_from_slice(&s.to_be_bytes()); v.extend_from_slice(&e.to_be_bytes()); }
        for d in dups { v.extend_from_slice(&d.to_be_bytes()); }
        Chunk { ty: 3, flags: 0, value: v }
    }

    pub fn init_chunk(ty: u8, init_tag: u32, a_rwnd: u32, out_streams: u16, in_streams: u16, initial_tsn: u32, params: &[u8]) -> Chunk {
        let mut v = Vec::new();
        v.extend_from_slice(&init_tag.to_be_bytes());
        v.extend_from_slice(&a_rwnd.to_be_bytes());
        v.extend_from_slice(&out_streams.to_be_bytes());
        v.extend_from_slice(&in_streams.to_be_bytes());
        v.extend_from_slice(&initial_tsn.to_be_bytes());
        v.extend_from_slice(params);
        Chunk { ty, flags: 0, value: v }
    }

    #[derive(Clone, Debug, PartialEq)]
    pub struct Sack { pub cum: u32, pub a_rwnd: u32, pub gaps: Vec<(u16, u16)>, pub dups: Vec<u32> }
    pub fn parse_sack(v: &[u8]) -> Option<Sack> {
        if v.len() < 12 { return None; }
        let cum = u32::from_be_bytes([v[0], v[1], v[2], v[3]]);
        let a_rwnd = u32::from_be_bytes([v[4], v[5], v[6], v[7]]);
        let ng = u16::from_be_bytes([v[8], v[9]]) as usize;
        let nd = u16::from_be_bytes([v[10], v[11]]) as usize;
        if v.len() < 12 + ng * 4 + nd * 4 { return None; }
        let mut gaps = vec![];
        let mut off = 12;
        for _ in 0..ng { gaps.push((u16::from_be_bytes([v[off], v[off + 1]]), u16::from_be_bytes([v[off + 2], v[off + 3]]))); off += 4; }
        let mut dups = vec![];
        for _ in 0..nd { dups.push(u32::from_be_bytes([v[off], v[off + 1], v[off + 2], v[off + 3]])); off += 4; }
        Some(Sack { cum, a_rwnd, gaps, dups })
    }

    #[derive(Clone, Debug, PartialEq)]
    pub struct Data { pub tsn: u32, pub sid: u16, pub ssn: u16, pub ppid: u32, pub flags: u8, pub payload: Vec<u8> }
    pub fn parse_data(c: &Chunk) -> Option<Data> {
        let v = &c.value;
        if c.ty != 0 || v.len() < 12 { return None; }
        Some(Data {
            tsn: u32::from_be_bytes([v[0], v[1], v[2], v[3]]),
            sid: u16::from_be_bytes([v[4], v[5]]),
            ssn: u16::from_be_bytes([v[6], v[7]]),
            ppid: u32::from_be_bytes([v[8], v[9], v[10], v[11]]),
            flags: c.flags,
            payload: v[12..].to_vec(),
        })
    }
}
