//! Scripted SCTP peer: the endpoint under test is a real `SctpTransport` (+ `DataChannel`s) on
//! top of a real, connected `DtlsTransport`; the harness owns the other DTLS endpoint and speaks
//! SCTP itself. Packets *into* the endpoint go through the channel `SctpTransport::new` takes
//! (exactly what DTLS would deliver); packets *out of* it are read in clear from the peer's DTLS
//! application-data receiver. No private access.
use crate::net::sctp_wire::*;
use crate::net::{dtls_pair_connected, DtlsPair};
use bytes::Bytes;
use parking_lot::Mutex;
use rustrtc::transports::sctp::{DataChannel, DataChannelConfig, DataChannelEvent, SctpTransport};
use rustrtc::RtcConfiguration;
use std::sync::{Arc, Weak};
use std::time::Duration;
use tokio::sync::mpsc;

pub const UUT_PORT: u16 = 5000;
pub const PEER_PORT: u16 = 5000;

pub struct Uut {
    pub pair: DtlsPair,
    pub sctp: Arc<SctpTransport>,
    pub inject_tx: mpsc::UnboundedSender<Bytes>,
    pub out_rx: mpsc::UnboundedReceiver<Bytes>,
    pub channels: Arc<Mutex<Vec<Weak<DataChannel>>>>,
    pub strong: Vec<Arc<DataChannel>>,
    pub new_dc_rx: mpsc::UnboundedReceiver<Arc<DataChannel>>,
    /// verification tag the endpoint chose (it expects it on inbound packets; it does not check)
    pub uut_tag: u32,
    /// initial TSN the endpoint will use for its DATA
    pub uut_initial_tsn: u32,
    /// tag the harness chose: the endpoint must put it on every packet it sends
    pub peer_tag: u32,
    /// initial TSN of the harness's own DATA
    pub peer_initial_tsn: u32,
    runner: tokio::task::JoinHandle<()>,
    pub setup_packets: Vec<Packet>,
}

impl Drop for Uut {
    fn drop(&mut self) {
        self.sctp.close();
        self.runner.abort();
    }
}

pub struct UutOpts {
    pub sctp_client: bool,
    pub peer_tag: u32,
    pub peer_initial_tsn: u32,
    pub peer_rwnd: u32,
    pub config: RtcConfiguration,
    /// channels created before the association comes up: (id, config)
    pub channels: Vec<(u16, DataChannelConfig)>,
}

impl Default for UutOpts {
    fn default() -> Self {
        UutOpts { sctp_client: true, peer_tag: 0x0BAD_CAFE, peer_initial_tsn: 1000, peer_rwnd: 1 << 20,
                  config: RtcConfiguration::default(), channels: vec![] }
    }
}

impl Uut {
    pub async fn start(opts: UutOpts) -> Uut {
        let mut pair = dtls_pair_connected().await;
        // the endpoint under test sits on the DTLS *client* side; the harness reads the server side
        let out_rx = pair.server.app_rx.take().unwrap();
        let _unused_client_rx = pair.client.app_rx.take();
        let (inject_tx, inject_rx) = mpsc::unbounded_channel::<Bytes>();
        let channels: Arc<Mutex<Vec<Weak<DataChannel>>>> = Arc::new(Mutex::new(Vec::new()));
        let mut strong = vec![];
        for (id, cfg) in &opts.channels {
            let dc = Arc::new(DataChannel::new(*id, cfg.clone()));
            channels.lock().push(Arc::downgrade(&dc));
            strong.push(dc);
        }
        let (new_dc_tx, new_dc_rx) = mpsc::unbounded_channel();
        let (sctp, run) = SctpTransport::new(pair.client.dtls.clone(), inject_rx, channels.clone(), UUT_PORT, PEER_PORT,
            Some(new_dc_tx), opts.sctp_client, &opts.config);
        let runner = tokio::spawn(run);
        let mut u = Uut { pair, sctp, inject_tx, out_rx, channels, strong, new_dc_rx, uut_tag: 0, uut_initial_tsn: 0,
            peer_tag: opts.peer_tag, peer_initial_tsn: opts.peer_initial_tsn, runner, setup_packets: vec![] };
        u.handshake(&opts).await;
        u
    }

    /// next packet emitted by the endpoint (parsed), or None after `max`
    pub async fn next_packet(&mut self, max: Duration) -> Option<Packet> {
        match tokio::time::timeout(max, self.out_rx.recv()).await {
            Ok(Some(b)) => parse_packet(&b),
            _ => None,
        }
    }
    pub async fn next_raw(&mut self, max: Duration) -> Option<Bytes> {
        match tokio::time::timeout(max, self.out_rx.recv()).await {
            Ok(Some(b)) => Some(b),
            _ => None,
        }
    }
    /// everything emitted until `quiet` passes without a packet (bounded by `max` overall)
    pub async fn drain(&mut self, quiet: Duration, max: Duration) -> Vec<Packet> {
        let mut out = vec![];
        let deadline = tokio::time::Instant::now() + max;
        loop {
            let left = deadline.saturating_duration_since(tokio::time::Instant::now());
            if left.is_zero() { break; }
            match self.next_packet(quiet.min(left)).await {
                Some(p) => out.push(p),
                None => break,
            }
        }
        out
    }

    pub fn inject_chunks(&self, chunks: &[Chunk]) {
        let p = build_packet(PEER_PORT, UUT_PORT, self.uut_tag, chunks);
        let _ = self.inject_tx.send(Bytes::from(p));
    }
    pub fn inject_chunks_with_tag(&self, tag: u32, chunks: &[Chunk]) {
        let p = build_packet(PEER_PORT, UUT_PORT, tag, chunks);
        let _ = self.inject_tx.send(Bytes::from(p));
    }
    pub fn inject_raw(&self, p: Vec<u8>) {
        let _ = self.inject_tx.send(Bytes::from(p));
    }

    async fn handshake(&mut self, opts: &UutOpts) {
        let step = Duration::from_secs(5);
        if opts.sctp_client {
            // endpoint sends INIT
            let init = loop {
                let p = self.next_packet(step).await.expect("no INIT from endpoint");
                self.setup_packets.push(p.clone());
                if let Some(c) = p.chunks.iter().find(|c| c.ty == 1) { break c.clone(); }
            };
            self.uut_tag = u32::from_be_bytes(init.value[0..4].try_into().unwrap());
            self.uut_initial_tsn = u32::from_be_bytes(init.value[12..16].try_into().unwrap());
            // INIT-ACK with a cookie parameter
            let cookie = b"verif-cookie-0123456".to_vec();
            let mut params = vec![];
            params.extend_from_slice(&0xC000u16.to_be_bytes()); params.extend_from_slice(&4u16.to_be_bytes());
            params.extend_from_slice(&7u16.to_be_bytes()); params.extend_from_slice(&((4 + cookie.len()) as u16).to_be_bytes());
            params.extend_from_slice(&cookie);
            while params.len() % 4 != 0 { params.push(0); }
            self.inject_chunks(&[init_chunk(2, opts.peer_tag, opts.peer_rwnd, 1024, 1024, opts.peer_initial_tsn, &params)]);
            loop {
                let p = self.next_packet(step).await.expect("no COOKIE-ECHO from endpoint");
                self.setup_packets.push(p.clone());
                if p.chunks.iter().any(|c| c.ty == 10) { break; }
            }
            self.inject_chunks(&[Chunk { ty: 11, flags: 0, value: vec![] }]);
        } else {
            let mut params = vec![];
            params.extend_from_slice(&0xC000u16.to_be_bytes()); params.extend_from_slice(&4u16.to_be_bytes());
            self.inject_chunks_with_tag(0, &[init_chunk(1, opts.peer_tag, opts.peer_rwnd, 1024, 1024, opts.peer_initial_tsn, &params)]);
            let ack = loop {
                let p = self.next_packet(step).await.expect("no INIT-ACK from endpoint");
                self.setup_packets.push(p.clone());
                if let Some(c) = p.chunks.iter().find(|c| c.ty == 2) { break c.clone(); }
            };
            self.uut_tag = u32::from_be_bytes(ack.value[0..4].try_into().unwrap());
            self.uut_initial_tsn = u32::from_be_bytes(ack.value[12..16].try_into().unwrap());
            // find cookie parameter
            let mut off = 16;
            let mut cookie = vec![];
            while off + 4 <= ack.value.len() {
                let ty = u16::from_be_bytes([ack.value[off], ack.value[off + 1]]);
                let len = u16::from_be_bytes([ack.value[off + 2], ack.value[off + 3]]) as usize;
                if len < 4 || off + len > ack.value.len() { break; }
                if ty == 7 { cookie = ack.value[off + 4..off + len].to_vec(); }
                off += (len + 3) & !3;
            }
            self.inject_chunks(&[Chunk { ty: 10, flags: 0, value: cookie }]);
            loop {
                let p = self.next_packet(step).await.expect("no COOKIE-ACK from endpoint");
                self.setup_packets.push(p.clone());
                if p.chunks.iter().any(|c| c.ty == 11) { break; }
            }
        }
        // let Open events / DCEP settle
        tokio::time::sleep(Duration::from_millis(20)).await;
    }

    /// non-blocking drain of the events a channel has produced so far
    pub async fn channel_events(dc: &Arc<DataChannel>, wait: Duration) -> Vec<DataChannelEvent> {
        let mut out = vec![];
        loop {
            match tokio::time::timeout(wait, dc.recv()).await {
                Ok(Some(e)) => out.push(e),
                _ => break,
            }
        }
        out
    }
}
