#!/bin/bash
# MANIFEST.setup_cmd: build the framework offline from files on disk.
set -u
cd "$(dirname "$0")"
export CARGO_NET_OFFLINE=true
mkdir -p .cache evidence replays
python3 tools/rs2v.py coq/Gen || echo "setup: translator reported untranslatable items (checks will report them)"
python3 - <<'PY'
import sys
sys.path.insert(0, "tools")
import check
check.ensure_makefile()
PY
( cd coq && timeout 3000 make -f Makefile.coq -j16 -k > ../.cache/coq-build.log 2>&1 ) || echo "setup: coq build had failures (see .cache/coq-build.log); per-property checks will report them"
[ -f harness/Cargo.lock ] || cp /repo/Cargo.lock harness/Cargo.lock
( cd harness && timeout 3000 cargo build --offline --bins > ../.cache/cargo-build.log 2>&1 ) || echo "setup: harness build had failures (see .cache/cargo-build.log)"
echo "setup done"
