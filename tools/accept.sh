#!/bin/bash
# coordinator helper: run a property's quick check; on success enable it in the manifest
cd /verif
for ID in "$@"; do
  out=$(./check $ID quick 2>&1); rc=$?
  echo "$out" | grep -E "^(VIOLATION|KNOWN-FINDING|NOTE|$ID)" | cut -c1-220
  if [ $rc -eq 0 ]; then
    grep -qw $ID manifest.d/ENABLED || sed -i "s/\$/ $ID/" manifest.d/ENABLED
    python3-vt -c "
import json,jsonschema
jsonschema.validate(json.load(open('/verif/evidence/$ID.json')),json.load(open('/root/.vp/EVIDENCE.schema.json')))
print('$ID evidence valid')"
  else echo "$ID: check exit $rc -- not enabled"; fi
done
python3 tools/mkmanifest.py
python3-vt -c "
import json,jsonschema
jsonschema.validate(json.load(open('/verif/MANIFEST.json')),json.load(open('/root/.vp/MANIFEST.schema.json')))
print('manifest valid')"
