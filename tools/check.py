#!/usr/bin/env python3
"""./check <PROPERTY> [quick|thorough] [--replay FILE]

Pipeline (DESIGN.md §2.4):
  1. rs2v: regenerate coq/Gen/*.v from /repo's working tree
  2. make Props/<P>.vo Run/<P>Run.vo           (proof obligations re-checked)
  3. audit: forbidden vernacular, Print Assumptions allow-list for every property theorem
  4. cargo build of the harness binary against /repo's working tree (hooks on)
  5. harness run: implementation outputs + direct property oracle
  6. model run (vm_compute, sharded coqc): correspondence
  7. classification, KNOWN-FINDING / VIOLATION lines, evidence/<P>.json
"""
import concurrent.futures
import glob
import hashlib
import json
import os
import re
import shutil
import subprocess
import sys
import time

ROOT = os.path.dirname(os.path.dirname(os.path.abspath(__file__)))
COQ = os.path.join(ROOT, "coq")
HARNESS = os.path.join(ROOT, "harness")
CACHE = os.path.join(ROOT, ".cache")
REPO = os.environ.get("RV_REPO", "/repo")
ENV = dict(os.environ, CARGO_NET_OFFLINE="true")

sys.path.insert(0, os.path.join(ROOT, "tools"))
from props import PROPS  # noqa: E402

ALLOWED_AXIOMS = {
    # std-lib axioms tolerated if a library pulls them in; each must be named in the evidence
    "Coq.Logic.FunctionalExtensionality.functional_extensionality_dep",
    "functional_extensionality_dep",
}

FORBIDDEN = re.compile(
    r"\b(Admitted|admit|Axiom|Axioms|Parameter|Parameters|Conjecture|Admit\s+Obligations|"
    r"Unset\s+Guard\s+Checking|Unset\s+Positivity\s+Checking|Unset\s+Universe\s+Checking|bypass_check|"
    r"type-in-type|impredicative-set|native_compute)\b")


def sh(cmd, cwd=None, timeout=None, env=None):
    t0 = time.time()
    try:
        p = subprocess.run(cmd, cwd=cwd, shell=isinstance(cmd, str), stdout=subprocess.PIPE,
                           stderr=subprocess.STDOUT, timeout=timeout, env=env or ENV, text=True, errors="replace")
        return p.returncode, p.stdout, time.time() - t0
    except subprocess.TimeoutExpired as e:
        out = e.stdout if isinstance(e.stdout, str) else (e.stdout or b"").decode("utf8", "replace")
        return 124, out + "\n[timeout after %ss]" % timeout, time.time() - t0


def strip_coq_comments(src):
    out = []
    depth = 0
    i = 0
    while i < len(src):
        if src.startswith("(*", i):
            depth += 1
            i += 2
        elif src.startswith("*)", i) and depth > 0:
            depth -= 1
            i += 2
        else:
            if depth == 0:
                out.append(src[i])
            i += 1
    return "".join(out)


def coq_deps(vfile, seen=None):
    """transitive RV.* dependencies of a .v file (by scanning Require lines)"""
    seen = seen if seen is not None else set()
    if vfile in seen or not os.path.exists(vfile):
        return seen
    seen.add(vfile)
    src = strip_coq_comments(open(vfile).read())
    for m in re.finditer(r"From\s+RV\s+Require\s+(?:Import\s+|Export\s+)?((?:[A-Za-z_][\w']*(?:\.[A-Za-z_][\w']*)*\s*)+)\.(?=\s|$)", src):
        for mod in m.group(1).split():
            p = os.path.join(COQ, mod.replace(".", "/") + ".v")
            coq_deps(p, seen)
    for m in re.finditer(r"(?<![\w.])Require\s+(?:Import\s+|Export\s+)?((?:RV\.[\w'.]+\s*)+)\.(?=\s|$)", src):
        for mod in m.group(1).split():
            p = os.path.join(COQ, mod[3:].replace(".", "/") + ".v")
            coq_deps(p, seen)
    return seen


def ensure_makefile():
    import fcntl
    os.makedirs(CACHE, exist_ok=True)
    with open(os.path.join(CACHE, "mk.lock"), "w") as lk:
        fcntl.flock(lk, fcntl.LOCK_EX)
        _ensure_makefile()


def _ensure_makefile():
    files = sorted(os.path.relpath(p, COQ) for d in ("Lib", "Gen", "Model", "Proofs", "Props", "Run")
                   for p in glob.glob(os.path.join(COQ, d, "**", "*.v"), recursive=True))
    allp = os.path.join(COQ, "_CoqProject.all")
    text = open(os.path.join(COQ, "_CoqProject")).read() + "\n".join(files) + "\n"
    if not os.path.exists(allp) or open(allp).read() != text or not os.path.exists(os.path.join(COQ, "Makefile.coq")):
        open(allp, "w").write(text)
        rc, out, _ = sh(["coq_makefile", "-f", "_CoqProject.all", "-o", "Makefile.coq"], cwd=COQ)
        if rc != 0:
            raise RuntimeError("coq_makefile failed: " + out)


class Check:
    def __init__(self, pid, tier, seed, replay=None):
        self.pid = pid
        self.cfg = PROPS[pid]
        self.tier = tier
        self.seed = seed
        self.t0 = time.time()
        self.work = os.path.join(CACHE, "run", pid + "-" + tier)
        shutil.rmtree(self.work, ignore_errors=True)
        os.makedirs(self.work, exist_ok=True)
        os.makedirs(os.path.join(ROOT, "replays"), exist_ok=True)
        self.broken = []        # list of dicts: what no longer checks
        self.violations = []    # list of dicts with a concrete failing input
        self.notes = []
        self.known_lines = []
        self.ev = {}
        self.replay_arg = replay

    # ------------------------------------------------------------------ 1. translator
    def translate(self):
        rc, out, _ = sh([sys.executable, os.path.join(ROOT, "tools", "rs2v.py"), os.path.join(COQ, "Gen")])
        st = json.load(open(os.path.join(COQ, "Gen", "status.json")))
        self.gen_status = st
        deps = coq_deps(os.path.join(COQ, "Props", self.pid + ".v"))
        deps |= coq_deps(os.path.join(COQ, "Run", self.pid + "Run.v"))
        used = sorted(os.path.basename(d)[:-2] for d in deps if os.sep + "Gen" + os.sep in d)
        self.gen_used = used
        for g in used:
            if g in st and not st[g]["ok"]:
                self.broken.append({"kind": "translator", "item": "Gen/%s.v" % g, "detail": st[g]["error"]})
        self.ev["translated_modules"] = {g: [i["item"] for i in st.get(g, {}).get("items", [])] for g in used}

    # ------------------------------------------------------------------ 2. proofs
    def build_proofs(self):
        ensure_makefile()
        targets = ["Props/%s.vo" % self.pid]
        if os.path.exists(os.path.join(COQ, "Run", self.pid + "Run.v")):
            targets.append("Run/%sRun.vo" % self.pid)
        self.proofs_ok = True
        self.run_ok = True
        tmo = 1500 if self.tier == "quick" else 3000
        for t in targets:
            # serialise Coq builds of concurrent checks (shared .vo files and Makefile.coq)
            rc, out, dt = sh(["flock", os.path.join(CACHE, "coq.lock"), "make", "-f", "Makefile.coq", "-j16", t], cwd=COQ, timeout=tmo)
            open(os.path.join(self.work, "make_%s.log" % os.path.basename(t)), "w").write(out)
            if rc != 0:
                m = re.search(r'File "\./([^"]+)", line (\d+)', out)
                where = "%s:%s" % (m.group(1), m.group(2)) if m else t
                err = out[-1500:]
                if t.startswith("Props/"):
                    self.proofs_ok = False
                    self.broken.append({"kind": "proof", "item": where, "detail": err,
                                        "theorem": self.locate_theorem(m.group(1), int(m.group(2))) if m else None})
                else:
                    self.run_ok = False
                    self.broken.append({"kind": "model-runner", "item": where, "detail": err})

    def locate_theorem(self, relfile, line):
        try:
            lines = open(os.path.join(COQ, relfile)).read().split("\n")
            for i in range(min(line, len(lines)) - 1, -1, -1):
                m = re.match(r"\s*(?:Theorem|Lemma|Corollary|Example|Definition|Fixpoint|Fact|Remark)\s+([A-Za-z0-9_']+)", lines[i])
                if m:
                    return m.group(1)
        except OSError:
            pass
        return None

    # ------------------------------------------------------------------ 3. audit
    def theorems(self):
        src = strip_coq_comments(open(os.path.join(COQ, "Props", self.pid + ".v")).read())
        return re.findall(r"(?m)^\s*Theorem\s+([A-Za-z0-9_']+)", src)

    def audit(self):
        deps = sorted(coq_deps(os.path.join(COQ, "Props", self.pid + ".v")) |
                      coq_deps(os.path.join(COQ, "Run", self.pid + "Run.v")))
        bad = []
        for d in deps:
            src = strip_coq_comments(open(d).read())
            src = re.sub(r'"[^"]*"', '""', src)
            for m in FORBIDDEN.finditer(src):
                bad.append("%s: %s" % (os.path.relpath(d, COQ), m.group(0)))
            # Variable/Hypothesis outside a Section
            depth = 0
            for ln in src.split("\n"):
                if re.match(r"\s*Section\s+\w+", ln):
                    depth += 1
                elif re.match(r"\s*End\s+\w+", ln) and depth > 0:
                    depth -= 1
                elif depth == 0 and re.match(r"\s*(Variable|Variables|Hypothesis|Hypotheses|Context)\b", ln):
                    bad.append("%s: %s outside a Section" % (os.path.relpath(d, COQ), ln.strip()[:40]))
        if bad:
            self.broken.append({"kind": "audit", "item": "forbidden vernacular", "detail": "; ".join(bad[:10])})
        self.ev["audited_files"] = [os.path.relpath(d, COQ) for d in deps]
        thms = self.theorems()
        self.obligations = thms
        self.discharged = []
        self.axioms = {}
        if not self.proofs_ok:
            return
        af = os.path.join(self.work, "audit.v")
        with open(af, "w") as f:
            f.write("From RV Require Import Props.%s.\n" % self.pid)
            for t in thms:
                f.write('Goal True. idtac "@@THM %s". exact I. Qed.\nPrint Assumptions %s.\n' % (t, t))
        rc, out, _ = sh(["coqc", "-Q", COQ, "RV", "-noglob", af], cwd=self.work, timeout=600)
        open(os.path.join(self.work, "audit.log"), "w").write(out)
        if rc != 0:
            self.broken.append({"kind": "audit", "item": "Print Assumptions", "detail": out[-800:]})
            return
        parts = re.split(r"@@THM (\S+)", out)
        for i in range(1, len(parts), 2):
            name, body = parts[i], parts[i + 1]
            if "Closed under the global context" in body:
                self.axioms[name] = []
                self.discharged.append(name)
            else:
                ax = re.findall(r"(?m)^([A-Za-z0-9_.']+)\s*:", body)
                self.axioms[name] = ax
                if all(a in ALLOWED_AXIOMS for a in ax):
                    self.discharged.append(name)
                else:
                    self.broken.append({"kind": "audit", "item": name, "detail": "depends on axioms/section hypotheses: " + ", ".join(ax)})

    def coqchk(self):
        """thorough tier: independent re-check of the compiled theorems and everything they depend on"""
        if self.tier != "thorough" or not self.proofs_ok:
            return
        rc, out, dt = sh(["coqchk", "-Q", COQ, "RV", "-o", "-silent", "RV.Props.%s" % self.pid], cwd=COQ, timeout=3000)
        open(os.path.join(self.work, "coqchk.log"), "w").write(out)
        m = re.search(r"\* Axioms:(.*?)\n\s*\n\* Constants/Inductives relying on type-in-type:(.*?)\n\s*\n"
                      r"\* Constants/Inductives relying on unsafe \(co\)fixpoints:(.*?)\n\s*\n"
                      r"\* Inductives whose positivity is assumed:(.*?)\n", out, re.S)
        summary = [x.strip() for x in m.groups()] if m else None
        self.ev["coqchk"] = {"cmd": "coqchk -Q coq RV -o -silent RV.Props.%s" % self.pid, "wall_s": round(dt, 1), "rc": rc,
                             "axioms": summary[0] if summary else None, "type_in_type": summary[1] if summary else None,
                             "unsafe_fixpoints": summary[2] if summary else None, "assumed_positivity": summary[3] if summary else None}
        if rc != 0 or summary is None or any(x != "<none>" for x in summary):
            ax = summary[0] if summary else ""
            names = [a.strip() for a in ax.split("\n") if a.strip() and a.strip() != "<none>"]
            if rc != 0 or summary is None or summary[1:] != ["<none>"] * 3 or not all(n.split()[0] in ALLOWED_AXIOMS for n in names):
                self.broken.append({"kind": "coqchk", "item": "RV.Props.%s" % self.pid, "detail": out[-1200:]})

    # ------------------------------------------------------------------ 4/5. harness
    def build_harness(self):
        self.harness_ok = False
        binname = self.cfg.get("bin")
        if not binname:
            return
        lock = os.path.join(HARNESS, "Cargo.lock")
        if not os.path.exists(lock):
            shutil.copy(os.path.join(REPO, "Cargo.lock"), lock)
        profile = self.cfg.get("profile", "dev")
        cmd = ["cargo", "build", "--offline", "--bin", binname] + (["--release"] if profile == "release" else [])
        rc, out, dt = sh(cmd, cwd=HARNESS, timeout=3000)
        open(os.path.join(self.work, "cargo.log"), "w").write(out)
        self.ev["harness_build_s"] = round(dt, 1)
        if rc != 0:
            errs = "\n".join(l for l in out.split("\n") if l.startswith("error"))[:1500]
            self.broken.append({"kind": "harness-build", "item": "harness/src/bin/%s.rs against /repo" % binname, "detail": errs or out[-1500:]})
            return
        self.harness_ok = True
        self.bin = os.path.join(CACHE, "target", "release" if profile == "release" else "debug", binname)

    def run_harness(self):
        self.cases = []
        if not self.harness_ok:
            return
        out_dir = os.path.join(self.work, "cases")
        cmd = [self.bin, "--tier", self.tier, "--seed", str(self.seed), "--out", out_dir]
        tmo = self.cfg.get("harness_timeout", {}).get(self.tier, 900 if self.tier == "quick" else 3600)
        rc, out, dt = sh(cmd, cwd=self.work, timeout=tmo, env=dict(ENV, RUST_BACKTRACE="0", RV_ROOT=ROOT))
        open(os.path.join(self.work, "harness.log"), "w").write(out)
        self.ev["harness_run_s"] = round(dt, 1)
        if rc != 0:
            self.broken.append({"kind": "harness-run", "item": self.cfg["bin"],
                                "detail": "harness exited with status %s (crash, abort or timeout of the driver binary itself): %s" % (rc, out[-1500:])})
            self.harness_ok = False
            return
        self.cases = [json.loads(l) for l in open(os.path.join(out_dir, "cases.jsonl"))]
        self.terms = open(os.path.join(out_dir, "terms.txt")).read().split("\n")
        if self.terms and self.terms[-1] == "":
            self.terms.pop()
        try:
            self.summary = json.load(open(os.path.join(out_dir, "summary.json")))
        except (OSError, ValueError):
            self.summary = {}

    # ------------------------------------------------------------------ 6. model run
    def run_model(self):
        self.disagreements = []
        self.model_evals = 0
        if not (self.harness_ok and self.run_ok and self.cases):
            return
        if not os.path.exists(os.path.join(COQ, "Run", self.pid + "Run.v")):
            return
        idx = [i for i, t in enumerate(self.terms) if t.strip() and t.strip() != "-"]
        shard = self.cfg.get("shard", 250)
        shards = [idx[i:i + shard] for i in range(0, len(idx), shard)]
        imports = self.cfg.get("run_imports", ["Run.%sRun" % self.pid])
        hdr = ("From Coq Require Import ZArith List Bool String.\nImport ListNotations.\n"
               "From RV Require Import %s.\nOpen Scope Z_scope.\n" % " ".join(imports))
        mdir = os.path.join(self.work, "model")
        os.makedirs(mdir, exist_ok=True)

        def one(k):
            ids = shards[k]
            vf = os.path.join(mdir, "shard_%d.v" % k)
            with open(vf, "w") as f:
                f.write(hdr)
                f.write("Definition cases : list case := [\n")
                f.write(";\n".join("(" + self.terms[i] + ")" for i in ids))
                f.write("].\nEval vm_compute in (bad_indices cases).\n")
            rc, out, dt = sh(["coqc", "-Q", COQ, "RV", "-noglob", "-w", "-all", vf], cwd=mdir, timeout=1800)
            if rc != 0:
                return k, None, out[-1200:]
            m = re.search(r"=\s*(\[.*?\]|nil)\s*:\s*list Z", out, re.S)
            if not m:
                return k, None, "cannot parse coqc output: " + out[-400:]
            bad = [int(x) for x in re.findall(r"-?\d+", m.group(1))]
            return k, [ids[b] for b in bad], None

        t0 = time.time()
        with concurrent.futures.ThreadPoolExecutor(max_workers=int(os.environ.get("RV_JOBS", "16"))) as ex:
            for k, bad, err in ex.map(one, range(len(shards))):
                if err is not None:
                    self.broken.append({"kind": "model-run", "item": "shard %d of Run/%sRun.v" % (k, self.pid), "detail": err})
                else:
                    self.model_evals += len(shards[k])
                    self.disagreements.extend(bad)
        self.ev["model_run_s"] = round(time.time() - t0, 1)
        # diagnostics for the first few disagreements: print the model's own output
        for i in self.disagreements[:3]:
            vf = os.path.join(mdir, "diag_%d.v" % i)
            with open(vf, "w") as f:
                f.write(hdr + "Eval vm_compute in (model_out (%s)).\n" % self.terms[i])
            rc, out, _ = sh(["coqc", "-Q", COQ, "RV", "-noglob", "-w", "-all", vf], cwd=mdir, timeout=300)
            self.cases[i]["model_out"] = re.sub(r"\s+", " ", out)[:3000]

    # ------------------------------------------------------------------ 7. classify
    def known_findings(self):
        out = []
        for p in sorted(glob.glob(os.path.join(ROOT, "known_findings.d", "*.jsonl"))):
            for l in open(p):
                l = l.strip()
                if l and not l.startswith("#"):
                    e = json.loads(l)
                    if e.get("property") == self.pid:
                        out.append(e)
        return out

    def classify(self):
        kf = self.known_findings()
        open_classes = {e["class"]: e for e in kf if e.get("status") == "open"}
        hits = {}
        for c in self.cases:
            if c.get("oracle_fail"):
                self.violations.append({"case": c["id"], "what": c["oracle_fail"], "desc": c["desc"], "kind": c.get("kind")})
            k = c.get("known")
            if k:
                for kk in (k if isinstance(k, list) else [k]):
                    if kk in open_classes:
                        hits.setdefault(kk, c)
                    else:
                        self.violations.append({"case": c["id"], "what": "failure of class '%s' which is not an open listed finding" % kk,
                                                "desc": c["desc"], "kind": c.get("kind")})
        for cls, e in open_classes.items():
            if cls in hits:
                self.known_lines.append("KNOWN-FINDING: property=%s %s" % (self.pid, e["what"]))
            elif self.harness_ok and not e.get("model_only"):
                self.notes.append("listed finding '%s' was not reproduced by this run" % cls)
        for i in self.disagreements:
            self.broken.append({"kind": "correspondence", "item": "Run/%sRun.v check_case on case %d" % (self.pid, i),
                                "detail": "model and implementation disagree", "case": self.cases[i]})

    def write_replay(self, obj, tag):
        p = os.path.join(ROOT, "replays", "%s-%s-%d-%s.json" % (self.pid, self.tier, self.seed, tag))
        obj = dict(obj, property=self.pid, tier=self.tier, seed=self.seed,
                   replay_cmd="./check %s %s --replay %s" % (self.pid, self.tier, p))
        json.dump(obj, open(p, "w"), indent=1, default=str)
        return p

    def finish(self):
        lines = []
        rc = 0
        lines.extend(self.known_lines)
        if self.violations:
            v = self.violations[0]
            p = self.write_replay({"violation": v, "all_violations": self.violations[:20], "broken": self.broken[:5]}, "violation")
            lines.append("VIOLATION property=%s replay=%s" % (self.pid, p))
            rc = 1
        elif self.broken:
            p = self.write_replay({"no_longer_checks": self.broken[:10],
                                   "search": "direct property oracle over corpus + generated cases found no failing input"},
                                  "broken")
            lines.append("VIOLATION property=%s replay=%s no-failing-input-found" % (self.pid, p))
            rc = 1
        for n in self.notes:
            lines.append("NOTE: " + n)
        nontriv = {}
        kinds = {}
        for c in self.cases:
            kinds[c.get("kind", "?")] = kinds.get(c.get("kind", "?"), 0) + 1
            if c.get("nontrivial"):
                nontriv[hashlib.sha1(c["key"].encode()).hexdigest()] = 1
        samples = [{"kind": c.get("kind"), "case": c["desc"]} for c in self.cases[:2]] + \
                  [{"kind": c.get("kind"), "case": c["desc"]} for c in self.cases[-1:]] if self.cases else []
        thm_samples = [{"obligation": t, "axioms": self.axioms.get(t)} for t in getattr(self, "obligations", [])]
        cov = {
            "obligations": len(getattr(self, "obligations", [])),
            "discharged": len(getattr(self, "discharged", [])),
            "checker_cmd": "make -f Makefile.coq Props/%s.vo (coqc 8.16.1 kernel, full .vo build) + Print Assumptions per theorem" % self.pid,
            "trusted_base": self.cfg.get("trusted_base", []) + [
                "Coq 8.16.1 kernel (coqc); vm_compute used inside proofs of finite facts and by the model runner; no native_compute",
                "axioms per theorem as printed by Print Assumptions: " + json.dumps(self.axioms),
                "tools/rs2v.py translator for: " + ", ".join("Gen/%s.v" % g for g in getattr(self, "gen_used", [])),
                "harness/src/bin/%s.rs (generators, canonicalisation, direct oracle) and tools/check.py" % self.cfg.get("bin", "-"),
            ],
            "theorems": thm_samples,
            "evaluations": len(self.cases),
            "distinct_nontrivial": len(nontriv),
            "rule": self.cfg.get("rule", ""),
            "samples": samples if samples else thm_samples[:3],
            "traces_validated_against_impl": self.model_evals,
            "disagreements": len(self.disagreements),
            "case_kinds": kinds,
            "generator": getattr(self, "summary", {}).get("generator", getattr(self, "summary", {})),
            "props_file_sha256": hashlib.sha256(open(os.path.join(COQ, "Props", self.pid + ".v"), "rb").read()).hexdigest(),
            "known_findings_hit": [l for l in self.known_lines],
            "no_longer_checks": [{"kind": b["kind"], "item": b["item"]} for b in self.broken[:10]],
        }
        cov.update(self.ev)
        ev = {
            "property_id": self.pid, "tier": self.tier, "seed": self.seed, "level": "proof",
            "coverage": cov,
            "assumptions": self.cfg.get("assumptions", []),
            "wall_s": round(time.time() - self.t0, 1),
            "violations": len(self.violations) + (1 if (self.broken and not self.violations) else 0),
        }
        os.makedirs(os.path.join(ROOT, "evidence"), exist_ok=True)
        json.dump(ev, open(os.path.join(ROOT, "evidence", self.pid + ".json"), "w"), indent=1, default=str)
        for l in lines:
            print(l)
        print("%s %s: obligations=%d discharged=%d cases=%d model-checked=%d disagreements=%d violations=%d broken=%d wall=%.0fs" % (
            self.pid, self.tier, cov["obligations"], cov["discharged"], len(self.cases), self.model_evals,
            len(self.disagreements), len(self.violations), len(self.broken), time.time() - self.t0))
        return rc

    def run(self):
        self.translate()
        self.build_proofs()
        self.audit()
        self.coqchk()
        self.build_harness()
        self.run_harness()
        self.run_model()
        self.classify()
        return self.finish()


def main():
    args = sys.argv[1:]
    if not args or args[0] not in PROPS:
        print("usage: check <%s> [quick|thorough] [--replay FILE]" % "|".join(sorted(PROPS)))
        return 2
    pid = args[0]
    tier = os.environ.get("VERIF_TIER", "quick")
    replay = None
    i = 1
    while i < len(args):
        if args[i] in ("quick", "thorough"):
            tier = args[i]
        elif args[i] == "--replay":
            replay = args[i + 1]
            i += 1
        i += 1
    seed = int(os.environ.get("VERIF_SEED", "1") or "1")
    if replay:
        r = json.load(open(replay))
        seed, tier = r.get("seed", seed), r.get("tier", tier)
    return Check(pid, tier, seed, replay).run()


if __name__ == "__main__":
    sys.exit(main())
