#!/bin/bash
# coordinator: independently confirm seeded changes in a scratch worktree of /repo:
#   demo fails with the change, passes without it, existing suite (586) still passes with it.
# usage: tools/confirm_seeded.sh seeded/C18-1 [seeded/...]; results appended to <dir>/confirm.json
W=/tmp/confirm-wt
export CARGO_TARGET_DIR=/tmp/confirm-target CARGO_NET_OFFLINE=true
ARGS=(); for a in "$@"; do ARGS+=("$(readlink -f "$a")"); done
for d in "${ARGS[@]}"; do
  git -C /repo worktree remove --force $W 2>/dev/null; rm -rf $W
  git -C /repo worktree add -q --detach $W HEAD || exit 1
  cp /repo/Cargo.lock $W/
  cd $W
  cp $d/demo.rs tests/seeded_demo.rs
  base=$(timeout 1500 cargo test --offline --test seeded_demo 2>&1 | grep -E "^test result" | tail -1)
  if git apply $d/patch.diff 2>/dev/null; then applied=true; else applied=false; fi
  with=$(timeout 1500 cargo test --offline --test seeded_demo 2>&1 | grep -E "^test result|error(\[|:)" | tail -1)
  mv tests/seeded_demo.rs /tmp/seeded_demo.rs.off
  suite=$(timeout 2400 cargo nextest run --workspace --no-fail-fast --test-threads 8 --offline 2>&1 | grep -E "Summary|^ +FAIL" | sort -u | tr '\n' ';')
  cd /
  python3 - "$d" "$applied" "$base" "$with" "$suite" <<'PY'
import json,sys
d,applied,base,withc,suite=sys.argv[1:6]
json.dump({"patch_applies_to_head":applied=="true","demo_without_change":base,"demo_with_change":withc,"existing_suite_with_change":suite,
 "head":__import__('subprocess').run(['git','-C','/repo','rev-parse','--short','HEAD'],stdout=-1,text=True).stdout.strip()},open(d+'/confirm.json','w'),indent=1)
print(d, '|', base, '|', withc, '|', suite[:200])
PY
done
git -C /repo worktree remove --force $W 2>/dev/null; rm -rf $W
