#!/bin/bash
# coordinator: run every quick check with other seeds, two at a time (so each runs under load); log failures
cd /verif
: > /tmp/flaky.log
run() { id=$1; seed=$2; out=$(VERIF_SEED=$seed ./check $id quick 2>&1); rc=$?; echo "$(date +%H:%M) $id seed=$seed rc=$rc | $(echo "$out" | grep -E "^$id quick" | cut -c1-150)" >> /tmp/flaky.log; [ $rc -ne 0 ] && cp replays/$id-quick-$seed-*.json /tmp/ 2>/dev/null; }
export -f run
for seed in 2 3; do
  for id in C01 C02 C04 C05 C06 C07 C08 C09 C10 C11 C12 C13 C14 C15 C16 C17 C18 C19 C20; do echo "$id $seed"; done
done | xargs -P 2 -L 1 bash -c 'run $0 $1'
echo done >> /tmp/flaky.log
