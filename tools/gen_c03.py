"""rs2v plugin for C03: Gen/DtlsRec.v

Regenerated from /repo on every run (src/transports/dtls/record.rs, src/transports/dtls/mod.rs):
  * enum ContentType (+ the TryFrom<u8> table, checked to be the inverse of the discriminants)
  * DtlsRecord::HEADER_SIZE, ProtocolVersion::DTLS_1_2, the field offsets of DtlsRecord::decode and the
    statement skeleton of DtlsRecord::encode
  * send(): the split `data.chunks(MAX_APP_DATA_RECORD_SIZE)`; send_record(): header_len / explicit_nonce_len /
    tag_len literals, the `(epoch << N) | seq` packing, `put_uint(seq, k)`, the fetch_add increment, the IV /
    nonce / AAD offsets
  * try_decrypt_record(): the epoch that bypasses decryption, the `(epoch << N) | seq` packing;
    decrypt_record_with_cipher(): minimum payload length, explicit nonce / tag split; make_aad() layout
  * handle_incoming_packet(): whether (and for which content types) unauthenticated epoch-0 records are
    discarded once keys exist, and that the test precedes try_decrypt_record  (`rx_drop_epoch0*`)
  * handle_decrypted_record(): the close_notify test (minimum length, description index, code)
  * the close path of handshake(): alert bytes and WHICH counter numbers the alert (`alert_seq_from_write_seq`)
The model (Model/DtlsRecord.v) is parameterised by these definitions, so a source change re-checks the proofs
against the new values. Anything that no longer has the expected shape raises Untranslatable (never guessed).
"""
import re
import sys

from rs2v import Module, Untranslatable, strip_comments, read, find_fn, find_enum

REC = "src/transports/dtls/record.rs"
MOD = "src/transports/dtls/mod.rs"


def norm(s):
    return re.sub(r"\s+", " ", s).strip()


def need(rx, text, what, flags=0):
    m = re.search(rx, text, flags)
    if not m:
        raise Untranslatable("%s: expected shape not found" % what)
    return m


def only(rx, text, what):
    ms = re.findall(rx, text)
    if len(ms) != 1:
        raise Untranslatable("%s: expected exactly one occurrence, found %d" % (what, len(ms)))
    return ms[0]


def gen_dtlsrec():
    """rs2v.py runs as __main__ and catches its own Untranslatable class; `import rs2v` gives this plugin a second
    copy of the class, so re-raise as the class the driver catches (an unreported failure would leave a stale Gen file)."""
    try:
        return _gen_dtlsrec()
    except Exception as e:  # noqa: BLE001
        main_u = getattr(sys.modules.get("__main__"), "Untranslatable", None) or Untranslatable
        msg = str(e) if isinstance(e, (main_u, Untranslatable)) else "%s: %s" % (type(e).__name__, e)
        # the message is embedded in a Coq comment of the generated file: no comment delimiters
        raise main_u(msg.replace("(*", "( *").replace("*)", "* )"))


def _gen_dtlsrec():
    m = Module("DtlsRec")
    rec = strip_comments(read(REC))
    mod = strip_comments(read(MOD))

    # ------------------------------------------------------------------ record.rs
    m.add_enum(REC, "ContentType")
    vs = find_enum(rec, "ContentType")
    codes = {v: int(d) for v, d in vs}
    _, _, tf = find_fn(rec, "try_from", "TryFrom<u8> for ContentType")
    arms = re.findall(r"(\d+)\s*=>\s*Ok\(ContentType::(\w+)\)", tf)
    if sorted((v, int(c)) for c, v in arms) != sorted(codes.items()) or not re.search(r"_\s*=>\s*bail!", tf):
        raise Untranslatable("ContentType::try_from is not the inverse of the discriminants: %r vs %r" % (arms, codes))
    m.raw("Definition content_type_of_u8 (b : Z) : option ContentType :=\n  %s None." % " ".join(
        "if b =? %s then Some ContentType_%s else" % (c, v) for c, v in arms), "fn ContentType::try_from", REC)

    hs = need(r"pub const HEADER_SIZE\s*:\s*usize\s*=\s*(\d+)\s*;", rec, "DtlsRecord::HEADER_SIZE").group(1)
    m.raw("Definition DTLS_HEADER_SIZE : Z := %s." % hs, "const DtlsRecord::HEADER_SIZE", REC)
    v12 = need(r"pub const DTLS_1_2\s*:\s*Self\s*=\s*Self\s*\{\s*major:\s*(\d+),\s*minor:\s*(\d+),?\s*\}", rec, "ProtocolVersion::DTLS_1_2")
    m.raw("Definition DTLS12_MAJOR : Z := %s.\nDefinition DTLS12_MINOR : Z := %s." % (v12.group(1), v12.group(2)),
          "const ProtocolVersion::DTLS_1_2", REC)

    _, _, dec = find_fn(rec, "decode", "DtlsRecord")
    dec = norm(dec)
    rx = (r"^\{ if buf\.len\(\) < Self::HEADER_SIZE \{ return Ok\(None\); \} "
          r"let content_type = ContentType::try_from\(buf\[(\d+)\]\)\?; let major = buf\[(\d+)\]; let minor = buf\[(\d+)\]; "
          r"let version = ProtocolVersion \{ major, minor \}; "
          r"let epoch = u16::from_be_bytes\(\[buf\[(\d+)\], buf\[(\d+)\]\]\); "
          r"let mut seq_bytes = \[0u8; 8\]; seq_bytes\[(\d+)\.\.8\]\.copy_from_slice\(&buf\[(\d+)\.\.(\d+)\]\); "
          r"let sequence_number = u64::from_be_bytes\(seq_bytes\); "
          r"let length = u16::from_be_bytes\(\[buf\[(\d+)\], buf\[(\d+)\]\]\) as usize; "
          r"if buf\.len\(\) < Self::HEADER_SIZE \+ length \{ return Ok\(None\); \} "
          r"buf\.advance\(Self::HEADER_SIZE\); let payload = buf\.split_to\(length\); "
          r"Ok\(Some\(Self \{ content_type, version, epoch, sequence_number, payload, \}\)\) \}$")
    d = need(rx, dec, "DtlsRecord::decode statement skeleton")
    g = [int(x) for x in d.groups()]
    if g[4] != g[3] + 1 or g[9] != g[8] + 1 or 8 - g[5] != g[7] - g[6]:
        raise Untranslatable("DtlsRecord::decode: non-contiguous field offsets %r" % (g,))
    m.raw("Definition DEC_OFF_TYPE : Z := %d.\nDefinition DEC_OFF_MAJOR : Z := %d.\nDefinition DEC_OFF_MINOR : Z := %d.\n"
          "Definition DEC_OFF_EPOCH : Z := %d.\nDefinition DEC_OFF_SEQ : Z := %d.\nDefinition DEC_SEQ_BYTES : Z := %d.\n"
          "Definition DEC_OFF_LEN : Z := %d." % (g[0], g[1], g[2], g[3], g[6], g[7] - g[6], g[8]),
          "fn DtlsRecord::decode (field offsets, skeleton checked)", REC)

    _, _, enc = find_fn(rec, "encode", "DtlsRecord")
    enc = norm(enc)
    rx = (r"^\{ buf\.put_u8\(self\.content_type as u8\); buf\.put_u8\(self\.version\.major\); buf\.put_u8\(self\.version\.minor\); "
          r"buf\.put_u16\(self\.epoch\); "
          r"buf\.put_u8\(\(self\.sequence_number >> 40\) as u8\); buf\.put_u8\(\(self\.sequence_number >> 32\) as u8\); "
          r"buf\.put_u8\(\(self\.sequence_number >> 24\) as u8\); buf\.put_u8\(\(self\.sequence_number >> 16\) as u8\); "
          r"buf\.put_u8\(\(self\.sequence_number >> 8\) as u8\); buf\.put_u8\(self\.sequence_number as u8\); "
          r"buf\.put_u16\(self\.payload\.len\(\) as u16\); buf\.put_slice\(&self\.payload\); \}$")
    need(rx, enc, "DtlsRecord::encode statement skeleton")
    m.raw("Definition ENC_SEQ_BYTES : Z := 6.", "fn DtlsRecord::encode (skeleton checked: type,major,minor,epoch16,seq48,len16,payload)", REC)

    # ------------------------------------------------------------------ send / send_record
    _, _, snd = find_fn(mod, "send", "DtlsTransport")
    snd = norm(snd)
    need(r"for chunk in data\.chunks\(MAX_APP_DATA_RECORD_SIZE\) \{ self\.send_record\(&crypto, chunk\)\.await\?; \} Ok\(\(\)\) \}$",
         snd, "DtlsTransport::send split loop")
    m.raw("Definition TX_SPLIT_BY_MAX_APP_DATA_RECORD_SIZE : bool := true.", "fn DtlsTransport::send (chunks(MAX_APP_DATA_RECORD_SIZE) loop checked)", MOD)

    _, _, sr = find_fn(mod, "send_record", "DtlsTransport")
    sr = norm(sr)
    need(r"let \(cipher, iv\) = if self\.inner\.is_client \{ \(&crypto\.client_write_cipher, &crypto\.keys\.client_write_iv\) \} "
         r"else \{ \(&crypto\.server_write_cipher, &crypto\.keys\.server_write_iv\) \};", sr, "send_record write key choice")
    need(r"let epoch = self\.inner\.write_epoch\.load\(Ordering::SeqCst\); ", sr, "send_record epoch load")
    inc = need(r"let seq = self\.inner\.write_seq\.fetch_add\((\d+), Ordering::SeqCst\); "
               r"let full_seq = \(\(epoch as u64\) << (\d+)\) \| seq;", sr, "send_record sequence allocation")
    lens = need(r"let header_len = (\d+); let explicit_nonce_len = (\d+); let tag_len = (\d+);", sr, "send_record length literals")
    need(r"buf\.put_u8\(ContentType::ApplicationData as u8\); buf\.put_u8\(ProtocolVersion::DTLS_1_2\.major\); "
         r"buf\.put_u8\(ProtocolVersion::DTLS_1_2\.minor\); buf\.put_u16\(epoch\); ", sr, "send_record header")
    sb = need(r"buf\.put_uint\(seq, (\d+)\); let ciphertext_len = explicit_nonce_len \+ data\.len\(\) \+ tag_len; "
              r"buf\.put_u16\(ciphertext_len as u16\); buf\.put_u64\(full_seq\); buf\.put_slice\(data\);", sr, "send_record header tail / explicit nonce")
    nn = need(r"let mut nonce_bytes = \[0u8; (\d+)\]; nonce_bytes\[0\.\.(\d+)\]\.copy_from_slice\(iv\); "
              r"nonce_bytes\[(\d+)\.\.(\d+)\]\.copy_from_slice\(&full_seq\.to_be_bytes\(\)\);", sr, "send_record nonce")
    if not (nn.group(2) == nn.group(3) and nn.group(1) == nn.group(4)):
        raise Untranslatable("send_record nonce layout not iv ++ full_seq")
    aad = need(r"let mut aad = \[0u8; (\d+)\]; aad\[0\.\.8\]\.copy_from_slice\(&full_seq\.to_be_bytes\(\)\); "
               r"aad\[8\] = ContentType::ApplicationData as u8; aad\[9\] = ProtocolVersion::DTLS_1_2\.major; "
               r"aad\[10\] = ProtocolVersion::DTLS_1_2\.minor; aad\[11\.\.13\]\.copy_from_slice\(&\(data\.len\(\) as u16\)\.to_be_bytes\(\)\);",
               sr, "send_record AAD")
    need(r"\.encrypt_in_place_detached\( nonce, &aad, &mut buf\[payload_offset\.\.payload_offset \+ payload_len\], \)", sr, "send_record seal call")
    need(r"buf\.put_slice\(&tag\); self\.inner \.conn \.send\(&buf\)", sr, "send_record tag append + send")
    m.raw("Definition TX_SEQ_INCR : Z := %s.\nDefinition TX_SEQ_BITS : Z := %s.\nDefinition TX_HEADER_LEN : Z := %s.\n"
          "Definition EXPLICIT_NONCE_LEN : Z := %s.\nDefinition GCM_TAG_LEN : Z := %s.\nDefinition TX_SEQ_BYTES : Z := %s.\n"
          "Definition IV_LEN : Z := %s.\nDefinition NONCE_LEN : Z := %s.\nDefinition AAD_LEN : Z := %s." % (
              inc.group(1), inc.group(2), lens.group(1), lens.group(2), lens.group(3), sb.group(1), nn.group(2), nn.group(1), aad.group(1)),
          "fn DtlsTransport::send_record (literals; header / nonce / AAD / seal skeleton checked)", MOD)

    # ------------------------------------------------------------------ make_aad / encrypt_record / decrypt
    _, _, ma = find_fn(mod, "make_aad")
    need(r"^\{ let mut aad = \[0u8; 13\]; aad\[0\.\.8\]\.copy_from_slice\(&seq\.to_be_bytes\(\)\); aad\[8\] = content_type as u8; "
         r"aad\[9\] = version\.major; aad\[10\] = version\.minor; aad\[11\.\.13\]\.copy_from_slice\(&\(length as u16\)\.to_be_bytes\(\)\); aad \}$",
         norm(ma), "make_aad skeleton")
    _, _, er = find_fn(mod, "encrypt_record")
    er = norm(er)
    need(r"nonce_bytes\[0\.\.4\]\.copy_from_slice\(iv\); nonce_bytes\[4\.\.12\]\.copy_from_slice\(&seq\.to_be_bytes\(\)\);", er, "encrypt_record nonce")
    need(r"let aad = make_aad\(seq, content_type, version, payload\.len\(\)\);", er, "encrypt_record AAD")
    need(r"result\.extend_from_slice\(&nonce_bytes\[4\.\.12\]\); result\.extend_from_slice\(payload\); "
         r"let tag = cipher \.encrypt_in_place_detached\(nonce, &aad, &mut result\[8\.\.\]\)", er, "encrypt_record layout")
    m.raw("Definition ENCRYPT_RECORD_LAYOUT_CHECKED : bool := true.", "fn make_aad / fn encrypt_record (skeleton checked)", MOD)

    _, _, dc = find_fn(mod, "decrypt_record_with_cipher")
    dc = norm(dc)
    mn = need(r"^\{ if payload\.len\(\) < (\d+) \+ (\d+) \{ return Err\(", dc, "decrypt_record_with_cipher length guard")
    need(r"let explicit_nonce = &payload\[0\.\.8\]; let ciphertext_len = payload\.len\(\) - 8 - 16; "
         r"let ciphertext = &payload\[8\.\.8 \+ ciphertext_len\]; let tag_bytes = &payload\[8 \+ ciphertext_len\.\.\];", dc, "decrypt split")
    need(r"nonce_bytes\[0\.\.4\]\.copy_from_slice\(iv\); nonce_bytes\[4\.\.12\]\.copy_from_slice\(explicit_nonce\);", dc, "decrypt nonce")
    need(r"let aad = make_aad\(seq, content_type, version, ciphertext_len\);", dc, "decrypt AAD")
    need(r"\.decrypt_in_place_detached\(nonce, &aad, &mut buf, tag\) \.map_err\(", dc, "decrypt open call")
    if (mn.group(1), mn.group(2)) != (lens.group(2), lens.group(3)):
        raise Untranslatable("decrypt length guard %s+%s differs from the send-side explicit nonce / tag lengths" % mn.groups())
    m.raw("Definition RX_MIN_PAYLOAD : Z := %s + %s." % mn.groups(), "fn decrypt_record_with_cipher (guard; split / nonce / AAD skeleton checked)", MOD)

    _, _, td = find_fn(mod, "try_decrypt_record", "DtlsInner")
    td = norm(td)
    pe = need(r"^\{ if record\.epoch == (\d+) \{ return Ok\(record\.payload\.clone\(\)\); \} "
              r"let full_seq = \(\(record\.epoch as u64\) << (\d+)\) \| record\.sequence_number; "
              r"if let Some\(crypto\) = &ctx\.session_crypto \{ let \(cipher, iv\) = if is_client \{ "
              r"\(&crypto\.server_write_cipher, &crypto\.keys\.server_write_iv\) \} else \{ "
              r"\(&crypto\.client_write_cipher, &crypto\.keys\.client_write_iv\) \}; "
              r"match decrypt_record_with_cipher\( record\.content_type, record\.version, full_seq, &record\.payload, cipher, iv, \) \{ "
              r"Ok\(p\) => Ok\(p\), Err\(e\) => \{ trace!\([^;]*\); Err\(anyhow::anyhow!\(\"Decryption failed: \{\}\", e\)\) \} \} \} else if", td, "try_decrypt_record skeleton")
    m.raw("Definition RX_PLAIN_EPOCH : Z := %s.\nDefinition RX_SEQ_BITS : Z := %s." % pe.groups(),
          "fn try_decrypt_record (plaintext epoch, seq packing, read key choice checked)", MOD)

    # ------------------------------------------------------------------ handle_incoming_packet
    _, _, hp = find_fn(mod, "handle_incoming_packet", "DtlsInner")
    hp = norm(hp)
    need(r"^\{ let mut data = packet; while !data\.is_empty\(\) \{ match DtlsRecord::decode\(&mut data\) \{ Ok\(None\) => break, Ok\(Some\(record\)\) => \{",
         hp, "handle_incoming_packet loop head")
    need(r"let payload = match self\.try_decrypt_record\(&record, ctx, is_client\) \{ Ok\(p\) => p, Err\(e\) => \{ warn!\(\"\{\}\", e\); break; \} \}; "
         r"self\.handle_decrypted_record\( record\.content_type, payload, ctx, incoming_data_tx, certificate, is_client, \) \.await\?; \} "
         r"Err\(e\) => \{ warn!\(\"Failed to decode DTLS record: \{\}\", e\); data = Bytes::new\(\); \} \} \} Ok\(\(\)\) \}$",
         hp, "handle_incoming_packet decrypt / dispatch / error arms")
    drop = re.search(r"Ok\(Some\(record\)\) => \{ if record\.epoch == (\d+) && "
                     r"(ctx\.session_keys\.is_some\(\)|\(record\.content_type == ContentType::ApplicationData \|\| ctx\.session_keys\.is_some\(\)\)) \{ "
                     r"let handshaking = matches!\(\*self\.state\.lock\(\), DtlsState::Handshaking\); "
                     r"if !handshaking \|\| (matches!\( record\.content_type, (?:ContentType::\w+(?: \| )?)+ \)|record\.content_type != ContentType::\w+) \{ continue; \} \} "
                     r"let payload = match self\.try_decrypt_record", hp)
    if drop:
        named = re.findall(r"ContentType::(\w+)", drop.group(3))
        if drop.group(3).startswith("matches!"):
            tys = named
        else:   # `!= ContentType::X`: every content type except X
            if named[0] not in codes:
                raise Untranslatable("discard rule names an unknown content type %s" % named[0])
            tys = [v for v, _ in vs if v != named[0]]
        m.raw("Definition rx_drop_epoch0 : bool := true.\nDefinition RX_DROP_EPOCH : Z := %s.\n"
              "Definition rx_drop_plain_app_without_keys : bool := %s.\n"
              "Definition rx_drop_types_handshaking : list ContentType := [%s]." % (
                  drop.group(1), "true" if drop.group(2).startswith("(") else "false", "; ".join("ContentType_" + t for t in tys)),
              "fn handle_incoming_packet (epoch-0 discard rule, placed before try_decrypt_record)", MOD)
    elif re.search(r"Ok\(Some\(record\)\) => \{ let payload = match self\.try_decrypt_record", hp):
        m.raw("Definition rx_drop_epoch0 : bool := false.\nDefinition RX_DROP_EPOCH : Z := 0.\n"
              "Definition rx_drop_plain_app_without_keys : bool := false.\n"
              "Definition rx_drop_types_handshaking : list ContentType := [].",
              "fn handle_incoming_packet (NO epoch-0 discard rule)", MOD)
    else:
        raise Untranslatable("handle_incoming_packet: statements between decode and try_decrypt_record have an unknown shape")

    # ------------------------------------------------------------------ handle_decrypted_record
    _, _, hd = find_fn(mod, "handle_decrypted_record", "DtlsInner")
    hd = norm(hd)
    need(r"ContentType::ChangeCipherSpec => \{ (?:trace!\([^;]*\); )?ctx\.read_epoch = ctx\.read_epoch\.saturating_add\(1\); \}", hd, "dispatch: ChangeCipherSpec arm")
    need(r"ContentType::ApplicationData => \{ let _ = incoming_data_tx\.send\(payload\); \}", hd, "dispatch: ApplicationData arm")
    need(r"ContentType::Handshake => \{ self\.process_handshake_payload\(payload, ctx, certificate, is_client\) \.await\?; \}", hd, "dispatch: Handshake arm")
    al = need(r"ContentType::Alert => \{ (?:trace!\([^;]*\); )?if payload\.len\(\) >= (\d+) \{ let description = payload\[(\d+)\]; "
              r"if description == (\d+) \{ \*self\.state\.lock\(\) = DtlsState::Closed; let _ = self\.state_tx\.send\(DtlsState::Closed\); \} \} \} "
              r"_ => \{\} \} Ok\(\(\)\) \}$", hd, "dispatch: Alert arm")
    m.raw("Definition ALERT_MIN_LEN : Z := %s.\nDefinition ALERT_DESC_IDX : Z := %s.\nDefinition ALERT_CLOSE_NOTIFY : Z := %s." % al.groups(),
          "fn handle_decrypted_record (arms checked; close_notify test)", MOD)

    # ------------------------------------------------------------------ close path of handshake()
    _, _, hk = find_fn(mod, "handshake", "DtlsInner")
    hk = norm(hk)
    cl = need(r"_ = close_rx\.notified\(\) => \{ if let Some\(keys\) = &ctx\.session_keys \{ let alert = vec!\[(\d+), (\d+)\]; "
              r"let \(key, iv\) = if is_client \{ \(&keys\.client_write_key, &keys\.client_write_iv\) \} else \{ "
              r"\(&keys\.server_write_key, &keys\.server_write_iv\) \}; (.*?)"
              r"if let Ok\(encrypted\) = encrypt_record\( ContentType::Alert, ProtocolVersion::DTLS_1_2, full_seq, &alert, key, iv \) \{ "
              r"let record = DtlsRecord \{ content_type: ContentType::Alert, version: ProtocolVersion::DTLS_1_2, epoch: ctx\.epoch, "
              r"sequence_number: ([a-z_.]+), payload: Bytes::from\(encrypted\), \}; "
              r"let mut buf = BytesMut::new\(\); record\.encode\(&mut buf\); let _ = self\.conn\.send\(&buf\)\.await; \} \} return Ok\(\(\)\); \}",
              hk, "handshake(): close_notify path")
    mid, seqvar = cl.group(3).strip(), cl.group(4)
    new = re.match(r"^let alert_seq = if matches!\(\*self\.state\.lock\(\), DtlsState::Handshaking\) \{ ctx\.sequence_number \} else \{ "
                   r"self\.write_seq\.fetch_add\((\d+), Ordering::SeqCst\) \}; let full_seq = \(\(ctx\.epoch as u64\) << (\d+)\) \| alert_seq;$", mid)
    old = re.match(r"^let full_seq = \(\(ctx\.epoch as u64\) << (\d+)\) \| ctx\.sequence_number;$", mid)
    if new and seqvar == "alert_seq":
        flag, incr, bits = "true", new.group(1), new.group(2)
    elif old and seqvar == "ctx.sequence_number":
        flag, incr, bits = "false", "0", old.group(1)
    else:
        raise Untranslatable("handshake(): close_notify sequence-number source has an unknown shape: %r / %s" % (mid[:160], seqvar))
    m.raw("Definition ALERT_CLOSE_BYTES : list Z := [%s; %s].\nDefinition alert_seq_from_write_seq : bool := %s.\n"
          "Definition ALERT_SEQ_INCR : Z := %s.\nDefinition ALERT_SEQ_BITS : Z := %s." % (cl.group(1), cl.group(2), flag, incr, bits),
          "fn handshake (close_notify path: alert bytes, sequence-number source)", MOD)
    # Connected: write_epoch / write_seq initialised from the handshake counters (both roles), and in which order
    # relative to publishing the Connected state that send() tests
    _, _, hf = find_fn(mod, "handle_finished", "DtlsInner")
    hf = norm(hf)
    stores = r"self\.write_epoch\.store\(ctx\.epoch, Ordering::SeqCst\); self\.write_seq\.store\(ctx\.sequence_number, Ordering::SeqCst\);"
    publish = r"\*self\.state\.lock\(\) = state\.clone\(\);"
    after = len(re.findall(stores + " " + publish + r" let _ = self\.state_tx\.send\(state\);", hf))
    before = len(re.findall(publish + " " + stores + r" let _ = self\.state_tx\.send\(state\);", hf))
    if (after, before) == (2, 0):
        order = "true"
    elif (after, before) == (0, 2):
        order = "false"
    else:
        raise Untranslatable("handle_finished: write_epoch/write_seq stores vs. Connected publication: %d blocks publish last, %d publish first (expected 2 of one kind)" % (after, before))
    if len(re.findall(r"DtlsState::Connected\(", hf)) != 2 or len(re.findall(r"write_seq\.store", hf)) != 2:
        raise Untranslatable("handle_finished: expected exactly two Connected publications / write_seq stores")
    need(r"^\{ let crypto = \{ let state_guard = self\.inner\.state\.lock\(\); if let DtlsState::Connected\(crypto, _\) = &\*state_guard \{ crypto\.clone\(\) \} "
         r"else \{ return Err\(anyhow::anyhow!\(\"DTLS not connected\"\)\); \} \};", snd, "DtlsTransport::send state test")
    m.raw("Definition WRITE_SEQ_INIT_FROM_HANDSHAKE_COUNTER : bool := true.\n"
          "Definition connected_published_after_stores : bool := %s." % order,
          "fn handle_finished (write_epoch / write_seq stores; order relative to `state = Connected`) + fn send (state test)", MOD)
    return m


MODULES = {"DtlsRec": gen_dtlsrec}
