"""C06 translator plugin: Gen/IceAgent.v -- the literals and the one comparison of the ICE agent's
inbound STUN handling (src/transports/ice/mod.rs) that the C06 model depends on.

  handle_packet:        `let b = packet[0]; if b < N {`            -> stun_first_byte_lt
                        class dispatch order Request / SuccessResponse / ErrorResponse, and the
                        two `map.remove(&msg.transaction_id)` lookups     (shape check only)
  handle_stun_request:  peer-reflexive candidate: `IceCandidate::host(addr, C)`, `typ = PeerReflexive`,
                        `priority_for(IceCandidateType::PeerReflexive, C)`  -> prflx_component (+ shape)
                        `pair.priority(role) <op> cur.priority(role)`       -> upgrade_cmp
                        the role test guarding USE-CANDIDATE                -> use_candidate_role

Everything is found by anchored regular expressions on the comment-stripped source; when the shape
is not the expected one the module is Untranslatable (a broken tie), never a guess.
"""
import re

from rs2v import Module, Untranslatable, strip_comments, read, find_fn

ICE = "src/transports/ice/mod.rs"
MUX = "src/transports/ice/shared_udp.rs"
STCP = "src/transports/ice/shared_tcp.rs"

CMP = {">": "Z.gtb", ">=": "Z.geb", "<": "Z.ltb", "<=": "Z.leb", "==": "Z.eqb"}


def gen_iceagent():
    m = Module("IceAgent")
    src = strip_comments(read(ICE))

    # ---- handle_packet
    _p, _r, body = find_fn(src, "handle_packet")
    mm = re.search(r"let\s+b\s*=\s*packet\[0\]\s*;\s*if\s+b\s*<\s*(\d+)\s*\{", body)
    if not mm:
        raise Untranslatable("handle_packet: `let b = packet[0]; if b < N {` not found")
    m.raw("Definition stun_first_byte_lt : Z := %s." % mm.group(1), "handle_packet STUN first-byte test", ICE)
    order = [x.group(1) for x in re.finditer(r"msg\.class\s*==\s*StunClass::(\w+)", body)]
    if order != ["Request", "SuccessResponse", "ErrorResponse"]:
        raise Untranslatable("handle_packet: class dispatch is %r, expected Request/SuccessResponse/ErrorResponse" % (order,))
    if not re.search(r"msg\.class\s*==\s*StunClass::Request\s*\{\s*handle_stun_request\(&sender,\s*&msg,\s*addr,\s*inner\)\.await;", body):
        raise Untranslatable("handle_packet: Request arm does not call handle_stun_request directly")
    removes = re.findall(r"pending_transactions\.lock\(\);\s*if\s+let\s+Some\(tx\)\s*=\s*map\.remove\(&msg\.transaction_id\)\s*\{\s*let\s+_\s*=\s*tx\.send\(msg\);", body)
    if len(removes) != 2 or len(re.findall(r"pending_transactions", body)) != 2:
        raise Untranslatable("handle_packet: expected exactly two `map.remove(&msg.transaction_id)` dispatches on pending_transactions")
    m.raw("Definition response_dispatch_sites : Z := %d." % len(removes), "handle_packet pending-transaction dispatch sites", ICE)

    # ---- handle_stun_request
    _p, _r, body = find_fn(src, "handle_stun_request")
    if "pending_transactions" in body:
        raise Untranslatable("handle_stun_request touches pending_transactions")
    mm = re.search(r"IceCandidate::host\(addr,\s*(\d+)\)", body)
    m2 = re.search(r"IceCandidate::priority_for\(IceCandidateType::PeerReflexive,\s*(\d+)\)", body)
    m3 = re.search(r"candidate\.typ\s*=\s*IceCandidateType::PeerReflexive\s*;", body)
    if not (mm and m2 and m3) or mm.group(1) != m2.group(1):
        raise Untranslatable("handle_stun_request: peer-reflexive candidate construction has an unexpected shape")
    m.raw("Definition prflx_component : Z := %s." % mm.group(1), "handle_stun_request peer-reflexive component", ICE)
    mm = re.search(r"pair\.priority\(role\)\s*(>=|<=|==|>|<)\s*cur\.priority\(role\)", body)
    if not mm:
        raise Untranslatable("handle_stun_request: priority-upgrade comparison not found")
    m.raw("Definition upgrade_cmp (new_prio cur_prio : Z) : bool := %s new_prio cur_prio." % CMP[mm.group(1)],
          "handle_stun_request priority-upgrade comparison", ICE)
    mm = re.search(r"if\s+msg\.use_candidate\s*\{\s*let\s+role\s*=\s*\*inner\.role\.lock\(\);\s*if\s+role\s*==\s*IceRole::(\w+)\s*\{", body)
    if not mm:
        raise Untranslatable("handle_stun_request: USE-CANDIDATE role guard not found")
    m.raw("Definition use_candidate_role_is_controlled : bool := %s." % ("true" if mm.group(1) == "Controlled" else "false"),
          "handle_stun_request USE-CANDIDATE role guard", ICE)
    mm = re.search(r"if\s+inner\.config\.enable_latching\s*\{\s*let\s+current_pair[^;]*;\s*if\s+let\s+Some\(pair\)\s*=\s*current_pair\s*&&\s*pair\.remote\.address\.port\(\)\s*==\s*addr\.port\(\)\s*&&\s*pair\.remote\.address\.ip\(\)\s*!=\s*addr\.ip\(\)", body)
    if not mm:
        raise Untranslatable("handle_stun_request: latching retarget condition has an unexpected shape")
    m.raw("Definition latch_retarget_same_port_other_ip : bool := true.", "handle_stun_request latching retarget condition", ICE)
    # ---- complete_controlled_inbound_tcp_nomination: runs for every request on a TCP stream, controlled side only,
    #      once; and the USE-CANDIDATE branch returns early for TCP streams
    _p, _r, hbody = find_fn(src, "handle_stun_request")
    if not re.search(r"complete_controlled_inbound_tcp_nomination\(sender,\s*addr,\s*inner\.clone\(\)\)\.await;\s*if\s+msg\.use_candidate", hbody):
        raise Untranslatable("handle_stun_request: TCP nomination is not called unconditionally before the USE-CANDIDATE branch")
    if not re.search(r"if\s+matches!\(sender,\s*IceSocketWrapper::TcpStream\(_,\s*_,\s*_\)\)\s*\{\s*return;\s*\}", hbody):
        raise Untranslatable("handle_stun_request: USE-CANDIDATE branch no longer returns early for TCP streams")
    _p, _r, tbody = find_fn(src, "complete_controlled_inbound_tcp_nomination")
    if not re.search(r"^\{\s*if\s+\*inner\.role\.lock\(\)\s*!=\s*IceRole::Controlled\s*\{\s*return;\s*\}\s*let\s+IceSocketWrapper::TcpStream\(read,\s*_,\s*_\)\s*=\s*sender\s+else\s*\{\s*return;\s*\};\s*if\s+inner\.nomination_complete\.borrow\(\)\.is_some\(\)\s*\{", tbody):
        raise Untranslatable("complete_controlled_inbound_tcp_nomination: guards (controlled, TCP stream, not yet nominated) have an unexpected shape")
    if "pending_transactions" in tbody:
        raise Untranslatable("complete_controlled_inbound_tcp_nomination touches pending_transactions")
    m2 = re.search(r"IceCandidate::priority_for_tcp\(IceCandidateType::PeerReflexive,\s*(\d+),\s*TcpType::Passive\)", hbody)
    if not m2:
        raise Untranslatable("handle_stun_request: TCP peer-reflexive priority has an unexpected shape")
    m.raw("Definition prflx_tcp_component : Z := %s." % m2.group(1), "handle_stun_request TCP peer-reflexive component", ICE)

    # ---- shared_udp.rs dispatch: demux by the ufrag in USERNAME, else by recorded source address
    msrc = strip_comments(read(MUX))
    _p, _r, body = find_fn(msrc, "dispatch")
    mm = re.search(r"let\s+target_ufrag\s*=\s*if\s+packet\[0\]\s*<\s*(\d+)\s*\{\s*peer_ufrag_from_binding_request\(packet\)\s*\}\s*else\s*\{\s*None\s*\}\s*;", body)
    if not mm:
        raise Untranslatable("shared_udp dispatch: `if packet[0] < N { peer_ufrag_from_binding_request(packet) } else { None }` not found")
    m.raw("Definition mux_first_byte_lt : Z := %s." % mm.group(1), "shared_udp dispatch STUN first-byte test", MUX)
    if not re.search(r"if\s+let\s+Some\(u\)\s*=\s*target_ufrag\s*\{\s*self\.peers\.lock\(\)\.insert\(peer_addr,\s*u\.clone\(\)\);\s*Some\(u\)\s*\}\s*else\s*\{\s*self\.peers\.lock\(\)\.get\(&peer_addr\)\.cloned\(\)\s*\}", body):
        raise Untranslatable("shared_udp dispatch: routing rule (record on ufrag, else look up the source) has an unexpected shape")
    tsrc = strip_comments(read(STCP))
    _p, _r, body = find_fn(tsrc, "peer_ufrag_from_binding_request")
    mm = re.search(r"\(msg_type\s*&\s*(0x[0-9A-Fa-f]+)\)\s*==\s*(0x[0-9A-Fa-f]+);\s*let\s+is_request\s*=\s*\(msg_type\s*&\s*(0x[0-9A-Fa-f]+)\)\s*==\s*(0x[0-9A-Fa-f]+);", body)
    if not mm or "split_once(':')" not in body:
        raise Untranslatable("peer_ufrag_from_binding_request: header classification has an unexpected shape")
    m.raw("Definition mux_method_mask : Z := %d.\nDefinition mux_binding : Z := %d.\nDefinition mux_class_mask : Z := %d.\nDefinition mux_request : Z := %d."
          % tuple(int(x, 16) for x in mm.groups()), "peer_ufrag_from_binding_request header test", STCP)
    return m


MODULES = {"IceAgent": gen_iceagent}
