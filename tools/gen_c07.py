"""C07 translator plugin: Gen/C07Consts.v -- every length guard, buffer size and dispatch literal of the
network-facing decoders that the C07 models (coq/Model/Dec_*.v) and totality theorems depend on.

The literals live inline in function bodies, so each is found by an anchored regular expression on the
comment-stripped body of the named function; a pattern must match exactly the expected number of times,
otherwise the module is Untranslatable (never guessed).  A change of a guard in /repo therefore changes
the generated constant and the totality proofs are re-checked against the new value (e.g. turning the
ClientHello guard back to 34 makes `C07_client_hello_total` unprovable)."""
import re

from rs2v import Module, Untranslatable, strip_comments, read, find_fn, find_const

HS = "src/transports/dtls/handshake.rs"
DC = "src/transports/datachannel.rs"
SCTP = "src/transports/sctp.rs"
ICE = "src/transports/ice/mod.rs"
TURN = "src/transports/ice/turn.rs"
UDPTL = "src/transports/udptl.rs"
H264 = "src/media/depacketizer.rs"
RTX = "src/rtx.rs"
PC = "src/peer_connection.rs"

NUM = r"(0x[0-9A-Fa-f_]+|\d[\d_]*)"


def _int(tok):
    tok = tok.replace("_", "")
    return int(tok, 16) if tok.lower().startswith("0x") else int(tok)


def _one(body, pattern, what, count=1):
    ms = re.findall(pattern.replace("NUM", NUM), body)
    if len(ms) != count:
        raise Untranslatable("%s: expected %d match(es) of /%s/, found %d" % (what, count, pattern, len(ms)))
    vals = {_int(m if isinstance(m, str) else m[0]) for m in ms}
    if len(vals) != 1:
        raise Untranslatable("%s: occurrences disagree: %r" % (what, sorted(vals)))
    return vals.pop()


def _has(body, pattern, what, count=1):
    n = len(re.findall(pattern, body))
    if n != count:
        raise Untranslatable("%s: expected %d occurrence(s) of /%s/, found %d" % (what, count, pattern, n))


def _gen():
    m = Module("C07Consts")

    def put(name, val, item, path):
        m.raw("Definition %s : Z := %d." % (name, val), item, path)

    # ------------------------------------------------------------------ DTLS handshake decoders
    src = strip_comments(read(HS))
    mm = re.search(r"pub\s+const\s+HEADER_SIZE\s*:\s*usize\s*=\s*" + NUM + r"\s*;", src)
    if not mm:
        raise Untranslatable("HandshakeMessage::HEADER_SIZE not found")
    put("HS_HEADER_SIZE", _int(mm.group(1)), "HandshakeMessage::HEADER_SIZE", HS)
    b = find_fn(src, "decode", "HandshakeMessage")[2]
    _has(b, r"if\s+buf\.len\(\)\s*<\s*Self::HEADER_SIZE\s*\{\s*return\s+Ok\(None\)", "HandshakeMessage::decode header guard")
    _has(b, r"if\s+buf\.len\(\)\s*<\s*Self::HEADER_SIZE\s*\+\s*fragment_length\s+as\s+usize\s*\{\s*return\s+Ok\(None\)", "HandshakeMessage::decode body guard")
    b = find_fn(src, "decode", "ClientHello")[2]
    put("CH_MIN_LEN", _one(b, r"^\s*\{\s*if\s+buf\.len\(\)\s*<\s*NUM\s*\{", "ClientHello::decode first guard"), "ClientHello::decode minimum length", HS)
    put("CH_RANDOM_LEN", _one(b, r"let\s+mut\s+random_bytes\s*=\s*\[0u8;\s*NUM\]", "ClientHello random bytes"), "ClientHello random_bytes size", HS)
    put("CH_CS_LEN_MIN", _one(b, r"if\s+buf\.len\(\)\s*<\s*NUM\s*\{\s*bail!\(\"ClientHello too short for cipher suites length\"\)", "ClientHello cipher suite length guard"), "ClientHello cipher-suites length guard", HS)
    put("CH_CS_ELEM", _one(b, r"while\s+cs_buf\.len\(\)\s*>=\s*NUM\s*\{", "ClientHello cipher suite loop guard"), "ClientHello cipher-suite loop guard", HS)
    put("CH_EXT_MIN", _one(b, r"let\s+extensions\s*=\s*if\s+buf\.len\(\)\s*>=\s*NUM\s*\{", "ClientHello extensions guard"), "ClientHello extensions guard", HS)
    for what in ["session_id", "cookie", "cipher suites", "compression methods", "extensions"]:
        _has(b, r"bail!\(\"ClientHello too short for %s\"\)" % what, "ClientHello guard for " + what)
    _has(b, r"if\s+buf\.is_empty\(\)\s*\{", "ClientHello is_empty guards", 2)
    b = find_fn(src, "decode", "ServerHello")[2]
    put("SH_MIN_LEN", _one(b, r"^\s*\{\s*if\s+buf\.len\(\)\s*<\s*NUM\s*\{", "ServerHello::decode first guard"), "ServerHello::decode minimum length", HS)
    put("SH_RANDOM_LEN", _one(b, r"let\s+mut\s+random_bytes\s*=\s*\[0u8;\s*NUM\]", "ServerHello random bytes"), "ServerHello random_bytes size", HS)
    put("SH_SUITE_MIN", _one(b, r"if\s+buf\.len\(\)\s*<\s*NUM\s*\{\s*bail!\(\"ServerHello too short for cipher suite and compression\"\)", "ServerHello suite guard"), "ServerHello cipher suite + compression guard", HS)
    put("SH_EXT_MIN", _one(b, r"let\s+extensions\s*=\s*if\s+buf\.len\(\)\s*>=\s*NUM\s*\{", "ServerHello extensions guard"), "ServerHello extensions guard", HS)
    for what in ["session_id", "extensions"]:
        _has(b, r"bail!\(\"ServerHello too short for %s\"\)" % what, "ServerHello guard for " + what)
    b = find_fn(src, "decode", "HelloVerifyRequest")[2]
    put("HVR_MIN_LEN", _one(b, r"^\s*\{\s*if\s+buf\.len\(\)\s*<\s*NUM\s*\{", "HelloVerifyRequest first guard"), "HelloVerifyRequest::decode minimum length", HS)
    _has(b, r"if\s+buf\.len\(\)\s*<\s*cookie_len\s*\{", "HelloVerifyRequest cookie guard")
    b = find_fn(src, "decode", "ServerKeyExchange")[2]
    put("SKE_MIN_LEN", _one(b, r"^\s*\{\s*if\s+buf\.len\(\)\s*<\s*NUM\s*\{", "ServerKeyExchange first guard"), "ServerKeyExchange::decode minimum length", HS)
    put("SKE_SIG_MIN", _one(b, r"if\s+buf\.len\(\)\s*<\s*NUM\s*\{\s*bail!\(\"ServerKeyExchange too short for signature header\"\)", "ServerKeyExchange signature header guard"), "ServerKeyExchange signature header guard", HS)
    _has(b, r"if\s+buf\.len\(\)\s*<\s*public_key_len\s*\{", "ServerKeyExchange public key guard")
    _has(b, r"if\s+buf\.len\(\)\s*<\s*sig_len\s*\{", "ServerKeyExchange signature guard")
    b = find_fn(src, "decode", "CertificateMessage")[2]
    put("CERT_MIN_LEN", _one(b, r"^\s*\{\s*if\s+buf\.len\(\)\s*<\s*NUM\s*\{", "CertificateMessage first guard"), "CertificateMessage::decode minimum length", HS)
    put("CERT_ENTRY_HDR", _one(b, r"if\s+certs_buf\.len\(\)\s*<\s*NUM\s*\{", "CertificateMessage entry guard"), "CertificateMessage entry header guard", HS)
    _has(b, r"if\s+buf\.len\(\)\s*<\s*total_len\s*\{", "CertificateMessage total guard")
    _has(b, r"if\s+certs_buf\.len\(\)\s*<\s*cert_len\s*\{", "CertificateMessage entry length guard")
    _has(b, r"(?:certs_buf|buf)\.advance\(3\)", "CertificateMessage advance(3)", 2)
    b = find_fn(src, "decode", "ClientKeyExchange")[2]
    _has(b, r"if\s+buf\.is_empty\(\)\s*\{", "ClientKeyExchange empty guard")
    _has(b, r"if\s+buf\.len\(\)\s*<\s*public_key_len\s*\{", "ClientKeyExchange key guard")

    # receive counter of process_handshake_payload (dtls/mod.rs): wrapping, not `+= 1`
    dsrc = strip_comments(read("src/transports/dtls/mod.rs"))
    b = find_fn(dsrc, "process_handshake_payload")[2]
    _has(b, r"ctx\.recv_message_seq\s*=\s*ctx\.recv_message_seq\.wrapping_add\(1\)\s*;", "process_handshake_payload wrapping receive counter")
    _has(b, r"recv_message_seq\s*\+=\s*1", "process_handshake_payload unchecked receive counter", 0)
    # fragment reassembly: shape of the buffer handling, and NO capacity request driven by a peer-declared length
    _has(b, r"if\s+ctx\.incomplete_msg_seq\s*!=\s*msg\.message_seq\s*\|\|\s*msg\.fragment_offset\s*==\s*0\s*\{\s*ctx\.incomplete_handshake\.clear\(\)\s*;\s*ctx\.incomplete_msg_seq\s*=\s*msg\.message_seq\s*;\s*\}"
            r"\s*if\s+msg\.fragment_offset\s+as\s+usize\s*!=\s*ctx\.incomplete_handshake\.len\(\)\s*\|\|\s*msg\.fragment_offset\s+as\s+u64\s*\+\s*msg\.fragment_length\s+as\s+u64\s*>\s*msg\.total_length\s+as\s+u64\s*\{\s*continue\s*;\s*\}"
            r"\s*ctx\.incomplete_handshake\.extend_from_slice\(&msg\.body\[\.\.\]\)\s*;\s*if\s+ctx\.incomplete_handshake\.len\(\)\s*<\s*msg\.total_length\s+as\s+usize\s*\{\s*continue",
         "process_handshake_payload reassembly shape (reset, contiguity + fits-in-total guard, append, completeness test)")
    _has(b, r"if\s+msg\.total_length\s*!=\s*msg\.fragment_length\s*\{", "process_handshake_payload fragment test")
    _has(b, r"\b(reserve|reserve_exact|with_capacity|resize|set_len|try_reserve)\s*\(", "process_handshake_payload: capacity requests", 0)
    b = find_fn(dsrc, "handle_client_hello")[2]
    _has(b, r"while\s+ext_buf\.len\(\)\s*>=\s*4\s*\{\s*let\s+ext_type\s*=\s*ext_buf\.get_u16\(\)\s*;\s*let\s+ext_len\s*=\s*ext_buf\.get_u16\(\)\s+as\s+usize\s*;\s*if\s+ext_buf\.len\(\)\s*<\s*ext_len\s*\{\s*break", "handle_client_hello extension walk guards")
    _has(b, r"while\s+idx\s*<\s*2\s*\+\s*len\s*&&\s*idx\s*\+\s*1\s*<\s*_ext_data\.len\(\)\s*\{", "handle_client_hello use_srtp loop guard")
    _has(b, r"if\s+_ext_data\.len\(\)\s*>=\s*2\s*\{", "handle_client_hello use_srtp length guard")
    b = find_fn(dsrc, "handle_server_hello")[2]
    _has(b, r"while\s+ext_buf\.len\(\)\s*>=\s*4\s*\{\s*let\s+ext_type\s*=\s*ext_buf\.get_u16\(\)\s*;\s*let\s+ext_len\s*=\s*ext_buf\.get_u16\(\)\s+as\s+usize\s*;\s*if\s+ext_buf\.len\(\)\s*<\s*ext_len\s*\{\s*break", "handle_server_hello extension walk guards")
    _has(b, r"if\s+ext_data\.len\(\)\s*>=\s*5\s*\{", "handle_server_hello use_srtp length guard")

    # no vector capacity may be requested from a length field read off the wire in the handshake decoders
    hsrc = strip_comments(read(HS))
    for impl in ["HandshakeMessage", "ClientHello", "ServerHello", "HelloVerifyRequest", "ServerKeyExchange", "CertificateMessage", "ClientKeyExchange", "Finished"]:
        _has(find_fn(hsrc, "decode", impl)[2], r"\b(reserve|reserve_exact|with_capacity|resize|set_len|try_reserve)\s*\(", impl + "::decode: capacity requests", 0)

    # ------------------------------------------------------------------ DCEP
    src = strip_comments(read(DC))
    b = find_fn(src, "unmarshal", "DataChannelOpen")[2]
    put("DCEP_OPEN_MIN", _one(b, r"if\s+buf\.remaining\(\)\s*<\s*NUM\s*\{", "DataChannelOpen::unmarshal first guard"), "DataChannelOpen::unmarshal minimum length", DC)
    _has(b, r"if\s+buf\.remaining\(\)\s*<\s*label_len\s*\+\s*protocol_len\s*\{", "DataChannelOpen payload guard")
    b = find_fn(src, "unmarshal", "DataChannelAck")[2]
    _has(b, r"if\s+data\.is_empty\(\)\s*\{", "DataChannelAck empty guard")

    # ------------------------------------------------------------------ SCTP walkers and readers
    src = strip_comments(read(SCTP))
    b = find_fn(src, "handle_packet")[2]
    _has(b, r"if\s+packet\.len\(\)\s*<\s*SCTP_COMMON_HEADER_SIZE\s*\{\s*return\s+Ok\(\(\)\)", "sctp handle_packet header guard")
    _has(b, r"if\s+buf\.remaining\(\)\s*<\s*CHUNK_HEADER_SIZE\s*\{\s*break", "sctp chunk header guard")
    _has(b, r"if\s+chunk_length\s*<\s*CHUNK_HEADER_SIZE\s*\|\|\s*buf\.remaining\(\)\s*<\s*chunk_length\s*-\s*CHUNK_HEADER_SIZE\s*\{\s*break", "sctp chunk length guard")
    put("SCTP_PAD", _one(b, r"let\s+padding\s*=\s*\(NUM\s*-\s*\(chunk_length\s*%\s*4\)\)\s*%\s*4\s*;", "sctp chunk padding"), "sctp chunk padding modulus", SCTP)
    _has(b, r"if\s+buf\.remaining\(\)\s*>=\s*padding\s*\{\s*buf\.advance\(padding\)", "sctp padding guard")
    b = find_fn(src, "handle_init")[2]
    put("SCTP_INIT_FIXED", _one(b, r"if\s+buf\.remaining\(\)\s*<\s*NUM\s*\{", "handle_init fixed part guard"), "handle_init fixed-part guard", SCTP)
    b = find_fn(src, "handle_init_ack")[2]
    put("SCTP_INITACK_FIXED", _one(b, r"if\s+buf\.remaining\(\)\s*<\s*NUM\s*\{\s*return", "handle_init_ack fixed part guard"), "handle_init_ack fixed-part guard", SCTP)
    put("SCTP_PARAM_HDR", _one(b, r"while\s+buf\.remaining\(\)\s*>=\s*NUM\s*\{", "handle_init_ack param loop guard"), "handle_init_ack parameter header size", SCTP)
    put("SCTP_PARAM_MIN", _one(b, r"if\s+param_len\s*<\s*NUM\s*\|\|\s*buf\.remaining\(\)\s*<\s*param_len\s*-\s*4\s*\{\s*break", "handle_init_ack param length guard"), "handle_init_ack parameter length guard", SCTP)
    put("SCTP_PARAM_COOKIE", _one(b, r"if\s+param_type\s*==\s*NUM\s*\{", "handle_init_ack cookie type"), "handle_init_ack state cookie parameter type", SCTP)
    b = find_fn(src, "handle_sack")[2]
    put("SCTP_SACK_FIXED", _one(b, r"if\s+chunk\.len\(\)\s*>=\s*NUM\s*\{", "handle_sack fixed part guard"), "handle_sack fixed-part guard", SCTP)
    put("SCTP_GAP_SIZE", _one(b, r"for\s+_\s+in\s+0\.\.num_gap_ack_blocks\s*\{\s*if\s+buf\.remaining\(\)\s*<\s*NUM\s*\{\s*break", "handle_sack gap block guard"), "handle_sack gap block size guard", SCTP)
    b = find_fn(src, "handle_forward_tsn")[2]
    put("SCTP_FWD_FIXED", _one(b, r"if\s+chunk\.len\(\)\s*<\s*NUM\s*\{\s*return", "handle_forward_tsn guard"), "handle_forward_tsn fixed-part guard", SCTP)
    put("SCTP_FWD_PAIR", _one(b, r"while\s+buf\.remaining\(\)\s*>=\s*NUM\s*\{", "handle_forward_tsn pair loop"), "handle_forward_tsn pair size", SCTP)
    _has(b, r"if\s+new_cumulative_tsn\s*>\s*old_cumulative_tsn\s*\{", "handle_forward_tsn numeric comparison")
    b = find_fn(src, "handle_reconfig")[2]
    put("SCTP_RECONF_HDR", _one(b, r"while\s+buf\.remaining\(\)\s*>=\s*NUM\s*\{", "handle_reconfig loop guard"), "handle_reconfig parameter header size", SCTP)
    put("SCTP_RECONF_MIN", _one(b, r"if\s+param_length\s*<\s*NUM\s*\|\|\s*buf\.remaining\(\)\s*<\s*param_length\s*-\s*4\s*\{\s*break", "handle_reconfig length guard"), "handle_reconfig parameter length guard", SCTP)
    b = find_fn(src, "handle_reconfig_outgoing_ssn_reset")[2]
    put("SCTP_RESET_FIXED", _one(b, r"if\s+buf\.remaining\(\)\s*<\s*NUM\s*\{\s*return", "ssn reset fixed part"), "handle_reconfig_outgoing_ssn_reset fixed-part guard", SCTP)
    put("SCTP_RESET_SID", _one(b, r"while\s+buf\.remaining\(\)\s*>=\s*NUM\s*\{", "ssn reset stream loop"), "handle_reconfig_outgoing_ssn_reset stream id size", SCTP)
    _has(b, r"if\s+request_sn\s*<=\s*last_peer_sn\s*&&\s*last_peer_sn\s*!=\s*u32::MAX\s*\{", "ssn reset duplicate test")
    for n in ["RECONFIG_RESPONSE_SUCCESS_NOTHING_TO_DO", "RECONFIG_RESPONSE_SUCCESS_PERFORMED"]:
        m.add_const(SCTP, n)
    b = find_fn(src, "handle_data")[2]
    put("SCTP_DATA_FIXED", _one(b, r"if\s+buf\.remaining\(\)\s*<\s*NUM\s*\{\s*return", "handle_data guard"), "handle_data fixed-part guard", SCTP)
    b = find_fn(src, "process_data_payload")[2]
    put("SCTP_DATA_TSN_SKIP", _one(b, r"buf\.advance\(NUM\)\s*;", "process_data_payload TSN skip"), "process_data_payload TSN skip", SCTP)
    _has(b, r"let\s+stream_id\s*=\s*buf\.get_u16\(\)\s*;\s*let\s+stream_seq\s*=\s*buf\.get_u16\(\)\s*;\s*let\s+payload_proto\s*=\s*buf\.get_u32\(\)\s*;", "process_data_payload reads")
    for fn_name in ["handle_packet", "handle_init_ack", "handle_sack", "handle_forward_tsn", "handle_reconfig", "handle_reconfig_outgoing_ssn_reset", "handle_data", "process_data_payload", "handle_dcep"]:
        _has(find_fn(src, fn_name)[2], r"\b(reserve|reserve_exact|with_capacity|resize|set_len|try_reserve)\s*\(", "sctp " + fn_name + ": capacity requests", 0)
    b = find_fn(src, "handle_data")[2]
    _has(b, r"let\s+mut\s+buf\s*=\s*chunk\.clone\(\)\s*;\s*if\s+buf\.remaining\(\)\s*<\s*12\s*\{\s*return\s+Ok\(\(\)\)", "handle_data 12-byte header guard before anything is queued")
    b = find_fn(src, "handle_dcep")[2]
    _has(b, r"if\s+data\.is_empty\(\)\s*\{\s*return\s+Ok", "handle_dcep empty guard")

    # ------------------------------------------------------------------ ICE / TURN
    src = strip_comments(read(ICE))
    b = find_fn(src, "handle_packet")[2]
    _has(b, r"if\s+packet\.is_empty\(\)\s*\{\s*return\s*;", "ice handle_packet empty guard")
    put("ICE_STUN_FIRST_BYTE_LT", _one(b, r"let\s+b\s*=\s*packet\[0\]\s*;\s*if\s+b\s*<\s*NUM\s*\{", "ice handle_packet STUN test"), "ice handle_packet STUN first-byte bound", ICE)
    b = find_fn(src, "handle_turn_packet")[2]
    put("TURN_CD_MIN", _one(b, r"if\s+packet\.len\(\)\s*>=\s*NUM\s*\{\s*let\s+channel_num", "handle_turn_packet ChannelData guard"), "handle_turn_packet ChannelData header guard", ICE)
    mm = re.search(r"\(" + NUM + r"\.\.=" + NUM + r"\)\.contains\(&channel_num\)", b)
    if not mm:
        raise Untranslatable("handle_turn_packet: channel number range not found")
    put("TURN_CH_LO", _int(mm.group(1)), "handle_turn_packet channel range low", ICE)
    put("TURN_CH_HI", _int(mm.group(2)), "handle_turn_packet channel range high", ICE)
    _has(b, r"if\s+packet\.len\(\)\s*>=\s*4\s*\+\s*len\s*\{", "handle_turn_packet ChannelData length guard")
    b = find_fn(src, "run_turn_read_loop")[2]
    put("TURN_READ_BUF", _one(b, r"let\s+mut\s+buf\s*=\s*\[0u8;\s*NUM\]\s*;", "run_turn_read_loop buffer"), "run_turn_read_loop buffer size", ICE)
    src = strip_comments(read(TURN))
    b = find_fn(src, "recv", "TurnClient")[2]
    _has(b, r"let\s+len\s*=\s*u16::from_be_bytes\(header\)\s+as\s+usize\s*;\s*if\s+len\s*>\s*buf\.len\(\)\s*\{\s*bail!", "TurnClient::recv frame length guard")
    _has(b, r"while\s+offset\s*<\s*len\s*\{\s*let\s+read\s*=\s*stream\.read\(&mut\s+buf\[offset\.\.len\]\)", "TurnClient::recv read loop")

    # ------------------------------------------------------------------ UDPTL
    src = strip_comments(read(UDPTL))
    b = find_fn(src, "recv", "UdtlTransport")[2]
    put("UDPTL_MIN", _one(b, r"if\s+n\s*<\s*NUM\s*\{\s*return\s+Ok\(None\)", "UdtlTransport::recv minimum"), "UdtlTransport::recv minimum datagram", UDPTL)
    _has(b, r"if\s+pos\s*\+\s*2\s*>\s*n\s*\{", "udptl primary length guard")
    _has(b, r"if\s+pos\s*\+\s*primary_len\s*>\s*n\s*\{", "udptl primary data guard")
    _has(b, r"while\s+pos\s*\+\s*2\s*<=\s*n\s*\{", "udptl redundancy loop guard")
    _has(b, r"if\s+pos\s*\+\s*r_len\s*>\s*n\s*\{\s*break", "udptl redundancy data guard")
    b = find_fn(src, "default", "Default for UdtlConfig")[2]
    put("UDPTL_MAX_DATAGRAM", _one(b, r"max_datagram\s*:\s*NUM\s*,", "UdtlConfig max_datagram"), "UdtlConfig::default max_datagram", UDPTL)
    b = find_fn(src, "new", "UdtlReceiveBuffer")[2]
    put("UDPTL_FIRST_SEQ", _one(b, r"expected_seq\s*:\s*NUM\s*,", "UdtlReceiveBuffer expected_seq"), "UdtlReceiveBuffer::new expected_seq", UDPTL)

    # ------------------------------------------------------------------ H.264 depacketizer, RTX
    src = strip_comments(read(H264))
    b = find_fn(src, "push", "Depacketizer for H264Depacketizer")[2]
    put("H264_TYPE_MASK", _one(b, r"let\s+nal_type\s*=\s*header\s*&\s*NUM\s*;", "h264 nal type mask"), "H264 NAL type mask", H264)
    put("H264_STAPA", _one(b, r"NUM\s*=>\s*\{\s*let\s+mut\s+offset\s*=\s*1\s*;", "h264 STAP-A arm"), "H264 STAP-A type", H264)
    put("H264_FUA", _one(b, r"NUM\s*=>\s*\{\s*if\s+payload\.len\(\)\s*<\s*2\s*\{", "h264 FU-A arm"), "H264 FU-A type", H264)
    _has(b, r"while\s+offset\s*\+\s*2\s*<\s*len\s*\{", "h264 STAP-A loop guard")
    _has(b, r"if\s+offset\s*\+\s*nal_len\s*>\s*len\s*\{", "h264 STAP-A length guard")
    _has(b, r"if\s+payload\.is_empty\(\)\s*\{", "h264 empty payload guard")
    put("H264_S_BIT", _one(b, r"let\s+s_bit\s*=\s*\(fu_header\s*&\s*NUM\)\s*!=\s*0", "h264 S bit"), "H264 FU-A S bit", H264)
    put("H264_E_BIT", _one(b, r"let\s+e_bit\s*=\s*\(fu_header\s*&\s*NUM\)\s*!=\s*0", "h264 E bit"), "H264 FU-A E bit", H264)
    put("H264_NRI_MASK", _one(b, r"let\s+nri\s*=\s*header\s*&\s*NUM\s*;", "h264 NRI mask"), "H264 NRI mask", H264)
    src = strip_comments(read(RTX))
    b = find_fn(src, "unwrap_rtx_packet")[2]
    put("RTX_OSN_LEN", _one(b, r"if\s+rtx\.payload\.len\(\)\s*<\s*NUM\s*\{\s*return\s+None", "rtx OSN guard"), "unwrap_rtx_packet OSN length guard", RTX)

    # ------------------------------------------------------------------ loop progress statements (no-hang side of the models)
    src = strip_comments(read(ICE))
    b = find_fn(src, "from_sdp", "IceCandidate")[2]
    _has(b, r"if\s+parts\.len\(\)\s*<\s*8\s*\{\s*bail!", "from_sdp minimum token count")
    _has(b, r"if\s+i\s*\+\s*1\s*>=\s*parts\.len\(\)\s*\{\s*break\s+None", "from_sdp tcptype loop exit")
    _has(b, r"_\s*=>\s*\{\s*i\s*\+=\s*2\s*;\s*\}", "from_sdp tcptype loop step")
    _has(b, r"while\s+i\s*\+\s*1\s*<\s*parts\.len\(\)\s*\{", "from_sdp raddr/rport loop guard")
    _has(b, r"_\s*=>\s*\{\}\s*\}\s*i\s*\+=\s*2\s*;", "from_sdp raddr/rport loop step")
    src = strip_comments(read(H264))
    b = find_fn(src, "push", "Depacketizer for H264Depacketizer")[2]
    _has(b, r"offset\s*\+=\s*2\s*;", "h264 STAP-A length step")
    _has(b, r"offset\s*\+=\s*nal_len\s*;", "h264 STAP-A data step")
    src = strip_comments(read(UDPTL))
    b = find_fn(src, "recv", "UdtlTransport")[2]
    _has(b, r"pos\s*\+=\s*2\s*;", "udptl length steps", 3)
    _has(b, r"pos\s*\+=\s*r_len\s*;", "udptl redundancy data step")
    _has(b, r"pos\s*\+=\s*primary_len\s*;", "udptl primary data step")

    # ------------------------------------------------------------------ a=mid arithmetic
    src = strip_comments(read(PC))
    b = find_fn(src, "set_remote_description")[2]
    _has(b, r"if\s+let\s+Ok\(mid_val\)\s*=\s*section\.mid\.parse::<u16>\(\)\s*\{\s*self\.inner\.next_mid\.fetch_max\(mid_val\.saturating_add\(1\),", "set_remote_description saturating mid bump")
    return m


MODULES = {"C07Consts": _gen}
