"""rs2v plugin for C08: Gen/SdpTables.v

Translated from /repo on every run (regex-anchored on whitespace-normalised, comment-stripped source;
anything that no longer has the expected shape raises Untranslatable -- never guesses):

src/sdp.rs
  * enum MediaKind + `MediaKind::as_str` / `FromStr`            -> `kind`, `kind_str`
  * enum Direction + `as_str` / `from_attribute`                -> `dir`, `dir_str`, `dir_of_key`
  * the print-time partition of `MediaSection::write_lines`     -> `transport_keys` (list of keys printed
    first), plus a shape check of the whole statement order (m=, c=, transport, a=mid if non-empty,
    direction, media attributes)
  * the special cases of `MediaSection::apply_attribute`        -> `mid_key`, `connection_key` (+ order check)
  * `Attribute::from_line` / `write_line` separator             -> `attr_sep` (':')
  * `MediaSection::new` defaults (port, protocol)               -> `default_port`, `proto_default`
src/peer_connection.rs
  * enum TransceiverDirection must have the variants of Direction and identity `From` conversions
  * `TransceiverDirection::answer_direction`, `::sends`         -> `answer_direction`, `dir_sends`
  * the sender-less downgrade table of `build_description`      -> `dir_downgrade`
  * `setup` -> DTLS role table of `set_remote_description`      -> `setup_to_role`
  * role -> `setup` table of `populate_media_capabilities`      -> `role_to_setup`, `offer_setup`
  * per-mode media profile of `build_description`               -> `proto_rtp`, `proto_srtp`
  * the four header-extension URIs echoed by answers            -> `uri_rid`, `uri_repaired`, `uri_abs`, `uri_mid`
src/config.rs
  * `AudioCapability::default()` / `VideoCapability::default()` -> default_audio_pt/clock/channels/name,
    default_video_pt/name
"""
import re
import sys

_main = sys.modules.get("__main__")
if _main is not None and hasattr(_main, "Untranslatable") and hasattr(_main, "Module"):
    rs2v = _main            # rs2v.py run as a script: use ITS exception class so failures are recorded
else:
    import rs2v             # imported as a library

Module = rs2v.Module
Untranslatable = rs2v.Untranslatable

SDP = "src/sdp.rs"
PC = "src/peer_connection.rs"
CFG = "src/config.rs"


def norm(s):
    return re.sub(r"\s+", " ", s).strip()


def coq_str(s):
    if not all(32 <= ord(c) < 127 for c in s):
        raise Untranslatable("non-printable-ASCII string literal %r" % s)
    return '"%s"%%string' % s.replace('"', '""')


def arms(body, what):
    """`A::X => "lit",` arms -> [(X, lit)]"""
    out = re.findall(r"([A-Za-z]+)::([A-Za-z0-9]+) => \"([^\"]*)\"", body)
    if not out:
        raise Untranslatable("%s: no `Variant => \"literal\"` arms found" % what)
    return out


def enum_variants(src, name):
    vs = rs2v.find_enum(src, name)
    return [v for v, _ in vs]


def gen_sdp_tables():
    m = Module("SdpTables")
    m.lines.append("From Coq Require Import String.")
    sdp = rs2v.strip_comments(rs2v.read(SDP))
    pc = rs2v.strip_comments(rs2v.read(PC))
    cfg = rs2v.strip_comments(rs2v.read(CFG))

    # ------------------------------------------------------------------ MediaKind
    kinds = enum_variants(sdp, "MediaKind")
    _, _, body = rs2v.find_fn(sdp, "as_str", "MediaKind")
    ks = arms(norm(body), "MediaKind::as_str")
    if [v for _, v, _ in ks] != kinds:
        raise Untranslatable("MediaKind::as_str does not cover the variants in order: %r vs %r" % (ks, kinds))
    _, _, body = rs2v.find_fn(sdp, "from_str", "FromStr for MediaKind")
    back = re.findall(r"\"([^\"]*)\" => Ok\(MediaKind::([A-Za-z]+)\)", norm(body))
    if sorted(back) != sorted((s, v) for _, v, s in ks):
        raise Untranslatable("MediaKind::from_str is not the inverse of as_str: %r" % back)
    m.raw("Inductive kind : Set := %s." % " | ".join("K" + v for v in kinds), "enum MediaKind", SDP)
    m.raw("Definition kind_eqb (a b : kind) : bool := match a, b with %s | _, _ => false end." %
          " ".join("| K%s, K%s => true" % (v, v) for v in kinds), "enum MediaKind (eqb)", SDP)
    m.raw("Definition kind_str (k : kind) : string := match k with %s end." %
          " ".join("| K%s => %s" % (v, coq_str(s)) for _, v, s in ks), "MediaKind::as_str / from_str", SDP)

    # ------------------------------------------------------------------ Direction
    dirs = enum_variants(sdp, "Direction")
    _, _, body = rs2v.find_fn(sdp, "as_str", "Direction")
    ds = arms(norm(body), "Direction::as_str")
    if [v for _, v, _ in ds] != dirs:
        raise Untranslatable("Direction::as_str does not cover the variants in order")
    _, _, body = rs2v.find_fn(sdp, "from_attribute", "Direction")
    back = re.findall(r"\"([^\"]*)\" => Some\(Direction::([A-Za-z]+)\)", norm(body))
    if sorted(back) != sorted((s, v) for _, v, s in ds) or "_ => None" not in norm(body):
        raise Untranslatable("Direction::from_attribute is not the inverse of as_str: %r" % back)
    if not re.search(r"#\[default\]\s*%s\b" % dirs[0], rs2v.read(SDP)):
        raise Untranslatable("Direction default is not its first variant")
    m.raw("Inductive dir : Set := %s." % " | ".join("D" + v for v in dirs), "enum Direction", SDP)
    m.raw("Definition dir_default : dir := D%s." % dirs[0], "Direction #[default]", SDP)
    m.raw("Definition dir_eqb (a b : dir) : bool := match a, b with %s | _, _ => false end." %
          " ".join("| D%s, D%s => true" % (v, v) for v in dirs), "enum Direction (eqb)", SDP)
    m.raw("Definition dir_str (d : dir) : string := match d with %s end." %
          " ".join("| D%s => %s" % (v, coq_str(s)) for _, v, s in ds), "Direction::as_str", SDP)
    m.raw("Definition dir_of_key (k : string) : option dir :=\n  %s None." %
          " ".join("if String.eqb k %s then Some D%s else" % (coq_str(s), v) for s, v in back),
          "Direction::from_attribute", SDP)

    # ------------------------------------------------------------------ print-time partition
    _, _, body = rs2v.find_fn(sdp, "write_lines", "MediaSection")
    b = norm(body)
    mm = re.search(r"\.partition\(\|a\| \{ matches!\( a\.key\.as_str\(\), ((?:\"[^\"]*\"(?: \| )?)+) \) \}\);", b)
    if not mm:
        raise Untranslatable("MediaSection::write_lines: transport partition `matches!(a.key.as_str(), ...)` not found")
    tkeys = re.findall(r"\"([^\"]*)\"", mm.group(1))
    order = [r"write!\( out, \"m=\{\} \{\} \{\} \{\}\\r\\n\", self\.kind\.as_str\(\), self\.port, self\.protocol, self\.formats\.join\(\" \"\) \)\?;",
             r"if let Some\(connection\) = &self\.connection \{ write!\(out, \"c=\{\}\\r\\n\", connection\)\?; \}",
             r"let \(transport, media\): \(Vec<_>, Vec<_>\) = self \.attributes \.iter\(\) \.partition\(",
             r"for attr in &transport \{ attr\.write_line\(out\)\?; \}",
             r"if !self\.mid\.is_empty\(\) \{ write!\(out, \"a=mid:\{\}\\r\\n\", self\.mid\)\?; \}",
             r"write!\(out, \"a=\{\}\\r\\n\", self\.direction\.as_str\(\)\)\?;",
             r"for attr in &media \{ attr\.write_line\(out\)\?; \}"]
    pos = 0
    for rx in order:
        mo = re.compile(rx).search(b, pos)
        if not mo:
            raise Untranslatable("MediaSection::write_lines: statement order changed (missing after offset %d): %s" % (pos, rx[:60]))
        pos = mo.end()
    m.raw("Definition transport_keys : list string := [%s]." % "; ".join(coq_str(k) for k in tkeys),
          "MediaSection::write_lines transport partition + statement order", SDP)

    # ------------------------------------------------------------------ apply_attribute special cases
    _, _, body = rs2v.find_fn(sdp, "apply_attribute", "MediaSection")
    b = norm(body)
    mo = re.fullmatch(
        r"\{ if let Some\(direction\) = Direction::from_attribute\(&attr\.key\) \{ self\.direction = direction; return; \} "
        r"if attr\.key == \"([^\"]*)\" \{ if let Some\(value\) = attr\.value \{ self\.mid = value; \} return; \} "
        r"if attr\.key == \"([^\"]*)\" \{ self\.connection = attr\.value; return; \} "
        r"self\.attributes\.push\(attr\); \}", b)
    if not mo:
        raise Untranslatable("MediaSection::apply_attribute changed shape: " + b[:200])
    m.raw("Definition mid_key : string := %s.\nDefinition connection_key : string := %s." %
          (coq_str(mo.group(1)), coq_str(mo.group(2))), "MediaSection::apply_attribute special keys", SDP)
    if mo.group(1) != "mid":
        raise Untranslatable("apply_attribute absorbs key %r but write_lines prints a=mid" % mo.group(1))

    # ------------------------------------------------------------------ attribute line syntax
    _, _, body = rs2v.find_fn(sdp, "from_line", "Attribute")
    b = norm(body)
    mo = re.fullmatch(r"\{ if let Some\(idx\) = line\.find\('(.)'\) \{ Self::new\(line\[\.\.idx\]\.to_string\(\), "
                      r"Some\(line\[idx \+ 1\.\.\]\.to_string\(\)\)\) \} else \{ Self::new\(line\.to_string\(\), None\) \} \}", b)
    if not mo:
        raise Untranslatable("Attribute::from_line changed shape: " + b[:200])
    sep = mo.group(1)
    _, _, body = rs2v.find_fn(sdp, "write_line", "Attribute")
    b = norm(body)
    mo = re.fullmatch(r"\{ match &self\.value \{ Some\(value\) => write!\(out, \"a=\{\}(.)\{\}\\r\\n\", self\.key, value\), "
                      r"None => write!\(out, \"a=\{\}\\r\\n\", self\.key\), \} \}", b)
    if not mo or mo.group(1) != sep:
        raise Untranslatable("Attribute::write_line changed shape or separator: " + b[:200])
    if sep != ":":
        raise Untranslatable("attribute separator %r differs from the literal `a=mid:` of MediaSection::write_lines" % sep)
    m.raw("Definition attr_sep : Z := %d." % ord(sep), "Attribute::from_line / write_line separator", SDP)

    # ------------------------------------------------------------------ MediaSection::new defaults
    _, _, body = rs2v.find_fn(sdp, "new", "MediaSection")
    b = norm(body)
    mo = re.search(r"port: (\d+), protocol: \"([^\"]*)\"\.into\(\), formats: Vec::new\(\), direction: Direction::default\(\), "
                   r"attributes: Vec::new\(\), connection: None,", b)
    if not mo:
        raise Untranslatable("MediaSection::new changed shape")
    m.raw("Definition default_port : Z := %s.\nDefinition proto_default : string := %s." % (mo.group(1), coq_str(mo.group(2))),
          "MediaSection::new defaults", SDP)

    for fn, nm in (("apply_application_config", "proto_sctp"), ("apply_image_config", "proto_udptl")):
        _, _, body = rs2v.find_fn(sdp, fn, "MediaSection")
        mo = re.search(r"self\.protocol = \"([^\"]*)\"\.into\(\);", norm(body))
        if not mo:
            raise Untranslatable("MediaSection::%s: protocol assignment not found" % fn)
        m.raw("Definition %s : string := %s." % (nm, coq_str(mo.group(1))), "MediaSection::%s protocol" % fn, SDP)
    for fn in ("apply_audio_config", "apply_video_config"):
        _, _, body = rs2v.find_fn(sdp, fn, "MediaSection")
        if not re.search(r"if config\.rtcp_mux_policy == crate::config::RtcpMuxPolicy::Require "
                         r"&& config\.sdp_compatibility != crate::config::SdpCompatibilityMode::LegacySip "
                         r"\{ self\.attributes\.push\(Attribute::new\(\"rtcp-mux\", None\)\); \}", norm(body)):
            raise Untranslatable("MediaSection::%s: rtcp-mux condition changed shape" % fn)
    m.raw("Definition local_mux_shape_checked : bool := true.", "apply_audio_config / apply_video_config rtcp-mux condition (shape check)", SDP)

    # ------------------------------------------------------------------ TransceiverDirection
    tdirs = enum_variants(pc, "TransceiverDirection")
    if tdirs != dirs:
        raise Untranslatable("TransceiverDirection variants %r differ from Direction %r" % (tdirs, dirs))
    for a, bb in (("TransceiverDirection", "Direction"), ("Direction", "TransceiverDirection")):
        mo = re.search(r"impl From<%s> for %s \{" % (a, bb), pc)
        if not mo:
            raise Untranslatable("impl From<%s> for %s not found" % (a, bb))
        blk = norm(pc[mo.end():rs2v.balanced(pc, mo.end() - 1)])
        conv = re.findall(r"%s::([A-Za-z]+) => %s::([A-Za-z]+)" % (a, bb), blk)
        if sorted(conv) != sorted((v, v) for v in dirs):
            raise Untranslatable("From<%s> for %s is not the identity on variants: %r" % (a, bb, conv))
    _, _, body = rs2v.find_fn(pc, "answer_direction", "TransceiverDirection")
    conv = re.findall(r"TransceiverDirection::([A-Za-z]+) => TransceiverDirection::([A-Za-z]+)", norm(body))
    if sorted(v for v, _ in conv) != sorted(dirs) or not re.match(r"\{ match self \{", norm(body)):
        raise Untranslatable("TransceiverDirection::answer_direction changed shape: %r" % conv)
    m.raw("Definition answer_direction (d : dir) : dir := match d with %s end." %
          " ".join("| D%s => D%s" % (a, bb) for a, bb in conv), "fn TransceiverDirection::answer_direction", PC)
    _, _, body = rs2v.find_fn(pc, "sends", "TransceiverDirection")
    mo = re.fullmatch(r"\{ matches!\( self, ((?:TransceiverDirection::[A-Za-z]+(?: \| )?)+) \) \}", norm(body))
    if not mo:
        raise Untranslatable("TransceiverDirection::sends changed shape: " + norm(body))
    snd = re.findall(r"TransceiverDirection::([A-Za-z]+)", mo.group(1))
    m.raw("Definition dir_sends (d : dir) : bool := match d with %s | _ => false end." %
          " ".join("| D%s => true" % v for v in snd), "fn TransceiverDirection::sends", PC)

    # ------------------------------------------------------------------ build_description: downgrade + profiles
    _, _, bd = rs2v.find_fn(pc, "build_description", "PeerConnectionInner")
    bd = norm(bd)
    mo = re.search(r"if direction\.sends\(\) && sender_info\.is_none\(\) && !has_sender_ssrc "
                   r"&& transceiver\.kind\(\) != MediaKind::Application && transceiver\.kind\(\) != MediaKind::Image "
                   r"&& !remote_expects_media \{ direction = match direction \{ (.*?) _ => direction, \}; \}", bd)
    if not mo:
        raise Untranslatable("build_description: sender-less downgrade changed shape")
    conv = re.findall(r"TransceiverDirection::([A-Za-z]+) => TransceiverDirection::([A-Za-z]+),", mo.group(1))
    if not conv or norm(" ".join("TransceiverDirection::%s => TransceiverDirection::%s," % c for c in conv)) != norm(mo.group(1)):
        raise Untranslatable("build_description: downgrade arms changed shape: " + mo.group(1))
    m.raw("Definition dir_downgrade (d : dir) : dir := match d with %s | _ => d end." %
          " ".join("| D%s => D%s" % c for c in conv), "build_description sender-less downgrade", PC)
    mo = re.search(r"matches!\( section\.direction, ((?:crate::sdp::Direction::[A-Za-z]+(?: \| )?)+) \)", bd)
    if not mo:
        raise Untranslatable("build_description: remote_expects_media changed shape")
    exp = re.findall(r"Direction::([A-Za-z]+)", mo.group(1))
    m.raw("Definition remote_expects (d : dir) : bool := match d with %s | _ => false end." %
          " ".join("| D%s => true" % v for v in exp), "build_description remote_expects_media", PC)
    mo = re.search(r"match mode \{ TransportMode::Rtp => section\.protocol = \"([^\"]*)\"\.to_string\(\), "
                   r"TransportMode::Srtp => section\.protocol = \"([^\"]*)\"\.to_string\(\), TransportMode::WebRtc => \{\} \}", bd)
    if not mo:
        raise Untranslatable("build_description: per-mode media profile changed shape")
    m.raw("Definition proto_rtp : string := %s.\nDefinition proto_srtp : string := %s." %
          (coq_str(mo.group(1)), coq_str(mo.group(2))), "build_description per-mode media profile", PC)
    # mid clearing / BUNDLE echo shape
    # (since ca1331b) an answer echoes the offered group in every compatibility mode; only offers are gated by LegacySip
    if not re.search(r"let will_bundle = match sdp_type \{ SdpType::Offer => \{ self\.config\.sdp_compatibility != crate::config::SdpCompatibilityMode::LegacySip "
                     r"&& ordered_transceivers\.len\(\) > 1 \} SdpType::Answer => remote_offered_bundle, _ => false, \};", bd):
        raise Untranslatable("build_description: will_bundle changed shape")
    if not re.search(r"if will_bundle \{ let mids: Vec<String> = desc\.media_sections\.iter\(\)\.map\(\|m\| m\.mid\.clone\(\)\)\.collect\(\); "
                     r"let value = format!\(\"BUNDLE \{\}\", mids\.join\(\" \"\)\);", bd):
        raise Untranslatable("build_description: BUNDLE group construction changed shape")
    if not re.search(r"if self\.config\.sdp_compatibility == crate::config::SdpCompatibilityMode::LegacySip && !will_bundle \{ "
                     r"for section in &mut desc\.media_sections \{ section\.mid = String::new\(\); \} \} "
                     r"else if !will_bundle \{ if desc\.media_sections\.len\(\) > 1 \{ "
                     r"for section in &mut desc\.media_sections \{ section\.mid = String::new\(\); \} \} \}", bd):
        raise Untranslatable("build_description: mid clearing changed shape")
    if not re.search(r"if sdp_type == SdpType::Answer && !remote_offered_rtcp_mux \{ section\.attributes\.retain\(\|attr\| attr\.key != \"rtcp-mux\"\); \}", bd) or \
       not re.search(r"ordered\.push\(\( t, section\.attributes\.iter\(\)\.any\(\|attr\| attr\.key == \"rtcp-mux\"\), \)\);", bd):
        raise Untranslatable("build_description: rtcp-mux echo changed shape")
    m.raw("Definition answer_shape_checked : bool := true.",
          "build_description will_bundle / BUNDLE group / mid clearing (shape check)", PC)

    # ------------------------------------------------------------------ setup <-> role
    _, _, srd = rs2v.find_fn(pc, "set_remote_description", "PeerConnection")
    srd = norm(srd)
    mo = re.search(r"if attr\.key == \"setup\" && let Some\(val\) = &attr\.value \{ let is_client = match val\.as_str\(\) \{ (.*?) \};", srd)
    if not mo:
        raise Untranslatable("set_remote_description: setup -> role table not found")
    tbl = re.findall(r"\"([^\"]*)\" => (true|false),", mo.group(1))
    dflt = re.search(r"_ => (true|false),", mo.group(1))
    if not tbl or not dflt:
        raise Untranslatable("set_remote_description: setup -> role arms changed shape: " + mo.group(1))
    m.raw("Definition setup_to_role (s : string) : bool :=\n  %s %s." %
          (" ".join("if String.eqb s %s then %s else" % (coq_str(k), v) for k, v in tbl), dflt.group(1)),
          "set_remote_description setup -> is_client table", PC)
    if not re.search(r"let setup_attrs = desc \.media_sections \.iter\(\) \.flat_map\(\|section\| section\.attributes\.iter\(\)\) "
                     r"\.chain\(desc\.session\.attributes\.iter\(\)\); for attr in setup_attrs \{ if attr\.key == \"setup\"", srd):
        raise Untranslatable("set_remote_description: a=setup lookup order (media sections, then session level) changed shape")
    m.raw("Definition setup_media_then_session : bool := true.",
          "set_remote_description a=setup lookup order: media-level attributes, then session-level (shape check)", PC)
    mo = re.search(r"if self\.config\(\)\.transport_mode == TransportMode::Rtp \|\| self\.config\(\)\.transport_mode == TransportMode::Srtp "
                   r"\{ new_role = Some\((true|false)\); \}", srd)
    if not mo:
        raise Untranslatable("set_remote_description: non-WebRTC role default changed shape")
    m.raw("Definition role_non_webrtc : bool := %s." % mo.group(1), "set_remote_description role in RTP/SRTP mode", PC)
    _, _, pmc = rs2v.find_fn(pc, "populate_media_capabilities", "PeerConnectionInner")
    pmc = norm(pmc)
    mo = re.search(r"let setup_value = match sdp_type \{ SdpType::Offer => \"([^\"]*)\", SdpType::Answer => \{ "
                   r"let role = \*self\.dtls_role\.borrow\(\); match role \{ Some\(true\) => \"([^\"]*)\", Some\(false\) => \"([^\"]*)\", "
                   r"None => \"([^\"]*)\", \} \} _ => \"([^\"]*)\", \};", pmc)
    if not mo:
        raise Untranslatable("populate_media_capabilities: role -> setup table changed shape")
    m.raw("Definition offer_setup : string := %s." % coq_str(mo.group(1)), "populate_media_capabilities offer setup", PC)
    m.raw("Definition role_to_setup (r : option bool) : string :=\n  match r with Some true => %s | Some false => %s | None => %s end." %
          (coq_str(mo.group(2)), coq_str(mo.group(3)), coq_str(mo.group(4))),
          "populate_media_capabilities role -> setup table", PC)

    # ------------------------------------------------------------------ header-extension URIs
    raw_sdp = rs2v.read(SDP)     # not comment-stripped: the URI contains `//`
    mo1 = re.search(r"(?m)^pub const ABS_SEND_TIME_URI: &str = \"([^\"]*)\";", raw_sdp)
    mo2 = re.search(r"(?m)^pub const SDES_MID_URI: &str = \"([^\"]*)\";", raw_sdp)
    _, _, gv = rs2v.find_fn(pc, "get_remote_video_extmap_ids", "PeerConnectionInner")
    uris = re.findall(r"get_remote_extmap_id\( ?mid, \"([^\"]*)\",? ?\)", norm(gv))
    if not re.search(r"self\.get_remote_extmap_id\(&section\.mid, crate::sdp::ABS_SEND_TIME_URI\)", pmc) or \
       not re.search(r"self\.get_remote_extmap_id\(&section\.mid, crate::sdp::SDES_MID_URI\)", pmc):
        raise Untranslatable("populate_media_capabilities: abs-send-time / sdes:mid echo changed shape")
    if not mo1 or not mo2 or len(uris) != 2:
        raise Untranslatable("header-extension URIs not found")
    m.raw("Definition uri_rid : string := %s.\nDefinition uri_repaired : string := %s.\n"
          "Definition uri_abs : string := %s.\nDefinition uri_mid : string := %s." %
          (coq_str(uris[0]), coq_str(uris[1]), coq_str(mo1.group(1)), coq_str(mo2.group(1))),
          "header-extension URIs echoed by answers", PC)

    # ------------------------------------------------------------------ default capabilities
    mo = re.search(r"impl Default for AudioCapability \{ fn default\(\) -> Self \{ Self \{ payload_type: (\d+), "
                   r"codec_name: \"([^\"]*)\"\.to_string\(\), clock_rate: (\d+), channels: (\d+),", norm(cfg))
    if not mo:
        raise Untranslatable("AudioCapability::default changed shape")
    m.raw("Definition default_audio_pt : Z := %s.\nDefinition default_audio_name : string := %s.\n"
          "Definition default_audio_clock : Z := %s.\nDefinition default_audio_channels : Z := %s." %
          (mo.group(1), coq_str(mo.group(2)), mo.group(3), mo.group(4)), "AudioCapability::default", CFG)
    mo = re.search(r"impl Default for VideoCapability \{ fn default\(\) -> Self \{ Self \{ payload_type: (\d+), "
                   r"codec_name: \"([^\"]*)\"\.to_string\(\), clock_rate: (\d+),", norm(cfg))
    mo2 = re.search(r"rtx_payload_type: None, \} \} \} impl VideoCapability", norm(cfg))
    if not mo or not mo2:
        raise Untranslatable("VideoCapability::default changed shape")
    m.raw("Definition default_video_pt : Z := %s.\nDefinition default_video_name : string := %s.\n"
          "Definition default_video_clock : Z := %s." % (mo.group(1), coq_str(mo.group(2)), mo.group(3)),
          "VideoCapability::default", CFG)
    return m


MODULES = {"SdpTables": gen_sdp_tables}
