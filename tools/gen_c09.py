"""C09 translator plugin: Gen/Signaling.v

Regenerated from /repo/src/peer_connection.rs (+ sdp.rs, config.rs) on every run:
  * the enums SignalingState, SdpType, TransceiverDirection, MediaKind, TransportMode
  * the implemented signalling table: required state / transition target of
    create_offer, create_answer, set_local_description(type), set_remote_description(type)
    (match arms `SdpType::T => { if *state.borrow() != SignalingState::R {..Err..} [state.send(SignalingState::N)] }`)
  * validate_sdp_type (which types are accepted at all)
  * the ORDER OF EFFECTS the atomicity theorems depend on, as booleans:
      set_local_check_first        state check precedes set_mid/update_payload_map/update_extmap
      set_remote_next_mid_after_check   next_mid.fetch_max follows the state check
      set_remote_fp_check_early    the "changing remote DTLS fingerprint" refusal precedes handle_reinvite
      {set_remote,create_offer,create_answer}_restores_on_error   the call snapshots the signalling
                                   state before its fallible work and restores it on the Err path
      signalling_calls_serialised  all four calls hold `signaling_lock` (try_lock in the sync one)
      transition_atomic            check + transition is one `send_if_modified`
  * the next_mid bump `fetch_max(mid_val + K)` / `fetch_max(mid_val.saturating_add(K))`
The model (Model/Signaling.v) branches on these values, so a source change re-checks the
proofs against what the code says now.  Anything that no longer has the expected shape raises
Untranslatable (never guessed).
"""
import re
import sys
import rs2v
from rs2v import Module, Untranslatable, strip_comments, read, find_fn

PC = "src/peer_connection.rs"


def _arms(body, what):
    """parse the state-check block `match desc.sdp_type { SdpType::T => {...} ... }` of a setter.
    Two arm shapes are understood:
      atomic:  if !self.inner.signaling_transition(SignalingState::R, Some(SignalingState::N) | None) { return Err(InvalidState..) }
      split :  if *state.borrow() != SignalingState::R { return Err(InvalidState..) }  [state.send(SignalingState::N);]
    returns (rules, position of the block, atomic?)"""
    m = re.search(r"\{\s*(?:let\s+state\s*=\s*&self\.inner\.signaling_state\s*;\s*)?match\s+desc\.sdp_type\s*\{", body)
    if not m:
        raise Untranslatable("%s: state-check match block not found" % what)
    end = rs2v.balanced(body, m.end() - 1)
    blk = body[m.end():end - 1]
    rules = {}
    shapes = set()
    pos = 0
    while True:
        mm = re.compile(r"SdpType::([A-Za-z]+)\s*=>\s*\{").search(blk, pos)
        if not mm:
            break
        aend = rs2v.balanced(blk, mm.end() - 1)
        arm = blk[mm.end():aend - 1]
        pos = aend
        t = mm.group(1)
        cas = re.findall(r"if\s+!\s*self\s*\.inner\s*\.signaling_transition\(\s*SignalingState::([A-Za-z]+)\s*,\s*(None|Some\(\s*SignalingState::([A-Za-z]+)\s*\))\s*,?\s*\)\s*\{\s*return\s+Err\(\s*RtcError::InvalidState", arm)
        req = re.findall(r"if\s+\*state\.borrow\(\)\s*!=\s*SignalingState::([A-Za-z]+)\s*\{\s*return\s+Err\(\s*RtcError::InvalidState", arm)
        snd = re.findall(r"state\.send\(SignalingState::([A-Za-z]+)\)", arm)
        if cas:
            if len(cas) != 1 or req or snd:
                raise Untranslatable("%s: arm %s mixes atomic and split transitions" % (what, t))
            rules[t] = (cas[0][0], cas[0][2] or None)
            shapes.add("atomic")
            continue
        if not req:
            if re.search(r"^\s*return\s+Err\(RtcError::NotImplemented", arm):
                rules[t] = None
                continue
            raise Untranslatable("%s: arm %s has no recognisable state check" % (what, t))
        if len(req) != 1 or len(snd) > 1:
            raise Untranslatable("%s: arm %s has an unexpected shape" % (what, t))
        if snd and arm.index("state.send(") < arm.index("state.borrow()"):
            raise Untranslatable("%s: arm %s sends before checking" % (what, t))
        rules[t] = (req[0], snd[0] if snd else None)
        shapes.add("split")
    if len(shapes) > 1:
        raise Untranslatable("%s: arms mix atomic and split transitions" % what)
    return rules, m.start(), shapes == {"atomic"}


def _rule_def(name, rules, variants):
    lines = ["Definition %s (t : SdpType) : option (SignalingState * option SignalingState) :=\n  match t with" % name]
    for v in variants:
        if v not in rules:
            raise Untranslatable("%s: no arm for SdpType::%s" % (name, v))
        r = rules[v]
        if r is None:
            lines.append("  | SdpType_%s => None" % v)
        else:
            lines.append("  | SdpType_%s => Some (SignalingState_%s, %s)" % (
                v, r[0], "Some SignalingState_%s" % r[1] if r[1] else "None"))
    lines.append("  end.")
    return "\n".join(lines)


def gen_signaling():
    m = Module("Signaling")
    m.add_enum(PC, "SignalingState")
    m.add_enum("src/sdp.rs", "SdpType")
    m.add_enum(PC, "TransceiverDirection")
    m.add_enum("src/sdp.rs", "MediaKind")
    m.add_enum("src/config.rs", "TransportMode")
    variants = m.gen.enums["SdpType"]
    src = strip_comments(read(PC))

    # ---- create_offer / create_answer preconditions
    for fn in ("create_offer", "create_answer"):
        _, _, body = find_fn(src, fn)
        mm = re.search(r"let\s+state\s*=\s*&self\.inner\.signaling_state\s*;\s*if\s+\*state\.borrow\(\)\s*!=\s*SignalingState::([A-Za-z]+)\s*\{\s*return\s+Err\(\s*RtcError::InvalidState", body)
        if not mm:
            raise Untranslatable("%s: precondition on the signaling state not found at function entry" % fn)
        if body.index("signaling_state") > 220:
            raise Untranslatable("%s: state precondition is no longer the first statement" % fn)
        m.raw("Definition %s_required : SignalingState := SignalingState_%s." % (fn, mm.group(1)), "fn %s precondition" % fn, PC)

    # ---- validate_sdp_type
    _, _, body = find_fn(src, "validate_sdp_type")
    mm = re.search(r"match\s+sdp_type\s*\{\s*((?:SdpType::[A-Za-z]+\s*\|?\s*)+)=>\s*Ok\(\(\)\)\s*,\s*_\s*=>\s*Err\(RtcError::NotImplemented", body)
    if not mm:
        raise Untranslatable("validate_sdp_type: unexpected shape")
    ok = re.findall(r"SdpType::([A-Za-z]+)", mm.group(1))
    m.raw("Definition validate_sdp_type_ok (t : SdpType) : bool :=\n  match t with %s end." % " ".join(
        "| SdpType_%s => %s" % (v, "true" if v in ok else "false") for v in variants), "fn validate_sdp_type", PC)

    # ---- set_local_description
    _, _, body = find_fn(src, "set_local_description")
    rules, chk, atomic_local = _arms(body, "set_local_description")
    local_body = body
    m.raw(_rule_def("set_local_rule", rules, variants), "fn set_local_description state table", PC)
    muts = [body.find(x) for x in (".set_mid(", ".update_payload_map(", ".update_extmap(")]
    if any(x < 0 for x in muts):
        raise Untranslatable("set_local_description: transceiver mutations (set_mid/update_payload_map/update_extmap) not found")
    store = body.find("*local = Some(desc)")
    val = body.find("validate_sdp_type")
    if store < 0 or val < 0 or not (val < chk < store and val < min(muts) < store):
        raise Untranslatable("set_local_description: validate / state check / store order not recognised")
    if min(muts) < chk < max(muts):
        raise Untranslatable("set_local_description: state check sits between transceiver mutations")
    m.raw("Definition set_local_check_first : bool := %s." % ("true" if chk < min(muts) else "false"),
          "fn set_local_description order of state check vs transceiver mutation", PC)

    # ---- set_remote_description
    _, _, body = find_fn(src, "set_remote_description")
    rules, chk, atomic_remote = _arms(body, "set_remote_description")
    m.raw(_rule_def("set_remote_rule", rules, variants), "fn set_remote_description state table", PC)
    bump = re.search(r"next_mid\s*\.fetch_max\(\s*mid_val\s*(\+|\.saturating_add\(|\.wrapping_add\()\s*(\d+)\s*\)?\s*,", body)
    if not bump or len(re.findall(r"next_mid\s*\.fetch_max", body)) != 1:
        raise Untranslatable("set_remote_description: next_mid.fetch_max(mid_val + K | mid_val.saturating_add(K)) not found exactly once")
    if not re.search(r"if\s+let\s+Ok\(mid_val\)\s*=\s*section\.mid\.parse::<u16>\(\)", body):
        raise Untranslatable("set_remote_description: mid_val is no longer `section.mid.parse::<u16>()`")
    m.raw("Definition next_mid_bump : Z := %s." % bump.group(2), "fn set_remote_description next_mid bump", PC)
    m.raw("Definition next_mid_bump_saturating : bool := %s." % ("true" if "saturating" in bump.group(1) else "false"),
          "fn set_remote_description next_mid bump: saturating_add vs + / wrapping_add on u16", PC)
    reinv = body.find("handle_reinvite(")
    unchanged = body.find("!media_parameters_changed")
    fps = [x.start() for x in re.finditer(r"changing remote DTLS fingerprint", body)]
    if reinv < 0 or unchanged < 0 or not fps or not (reinv < chk < unchanged):
        raise Untranslatable("set_remote_description: reinvite / state check / unchanged-shortcut order not recognised")
    if fps[-1] < unchanged:
        raise Untranslatable("set_remote_description: the late fingerprint check (which stores the fingerprint) moved")
    if not (bump.start() < chk or chk < bump.start() < unchanged):
        raise Untranslatable("set_remote_description: next_mid update moved behind the unchanged-description shortcut")
    m.raw("Definition set_remote_next_mid_after_check : bool := %s." % ("true" if bump.start() > chk else "false"),
          "fn set_remote_description order of next_mid update vs state check", PC)
    m.raw("Definition set_remote_fp_check_early : bool := %s." % ("true" if fps[0] < reinv else "false"),
          "fn set_remote_description order of fingerprint-change refusal vs reinvite application", PC)

    # ---- restore-on-error guards: a drop guard `SignalingUndo::new(self)` created before the fallible
    # work, disarmed (only) right before the Ok exits; its Drop restores the snapshot
    def guarded(text, what, first_stmt):
        mk = [x.start() for x in re.finditer(r"let\s+mut\s+undo\s*=\s*SignalingUndo::new\(self\)\s*;", text)]
        dis = [x.start() for x in re.finditer(r"undo\.disarm\(\)\s*;", text)]
        if not mk and not dis:
            return False
        if len(mk) != 1 or not dis or min(dis) < mk[0]:
            raise Untranslatable("%s: restore guard has an unexpected shape" % what)
        if first_stmt and mk[0] > 700:
            raise Untranslatable("%s: the restore guard is no longer created at function entry" % what)
        return True
    _, _, b_remote = find_fn(src, "set_remote_description")
    g_remote = guarded(b_remote, "set_remote_description", True)
    if g_remote:
        # every Ok exit disarms, nothing else does
        oks = len(re.findall(r"\bOk\(\(\)\)", b_remote))
        dis_ok = len(re.findall(r"undo\.disarm\(\)\s*;\s*(?:return\s+)?Ok\(\(\)\)", b_remote))
        if oks != dis_ok or len(re.findall(r"undo\.disarm\(\)", b_remote)) != dis_ok:
            raise Untranslatable("set_remote_description: %d Ok exits but %d of them disarm the restore guard" % (oks, dis_ok))
        if b_remote.find("SignalingUndo::new(self)") > b_remote.find("handle_reinvite("):
            raise Untranslatable("set_remote_description: restore guard created after the first mutation")
    _, _, b_offer = find_fn(src, "create_offer")
    _, _, b_answer = find_fn(src, "create_answer")
    def guarded_build(text, what, ty):
        g = guarded(text, what, False)
        if g and not re.search(r"SignalingUndo::new\(self\)\s*;\s*let\s+desc\s*=\s*self\s*\.inner\s*\.build_description\(SdpType::%s\b[^;]*\.await\?\s*;\s*undo\.disarm\(\)\s*;" % ty, text):
            raise Untranslatable("%s: restore guard does not bracket build_description(...).await?" % what)
        return g
    g_offer = guarded_build(b_offer, "create_offer", "Offer")
    g_answer = guarded_build(b_answer, "create_answer", "Answer")
    if g_remote or g_offer or g_answer:
        _, _, rb = find_fn(src, "restore_signaling")
        _, _, sb = find_fn(src, "signaling_snapshot")
        need_snap = ["signaling_state.borrow()", "remote_description.lock().clone()", "next_mid.load", "remote_dtls_fingerprint.lock().clone()",
                     "transceivers.lock().clone()", "t.mid()", "t.direction()", "t.get_payload_map()", "t.get_extmap()"]
        need_rest = ["signaling_state.send_if_modified", "SignalingState::Closed", "*remote = snapshot.remote", "next_mid.store(snapshot.next_mid",
                     "remote_dtls_fingerprint.lock() = snapshot.remote_dtls_fingerprint", "*t.mid.lock() = mid", "t.set_direction(direction)",
                     "t.update_payload_map(payload_map)", "t.update_extmap(extmap)", "*transceivers = snapshot.transceivers"]
        for n in need_snap:
            if n not in sb:
                raise Untranslatable("signaling_snapshot no longer captures `%s`" % n)
        for n in need_rest:
            if n not in rb:
                raise Untranslatable("restore_signaling no longer restores `%s`" % n)
        mm = re.search(r"impl\s+Drop\s+for\s+SignalingUndo(?:<[^>]*>)?\s*\{", src)
        if not mm:
            raise Untranslatable("impl Drop for SignalingUndo not found")
        drop_body = src[mm.end() - 1:rs2v.balanced(src, mm.end() - 1)]
        if not re.search(r"if\s+let\s+Some\(snapshot\)\s*=\s*self\.snapshot\.take\(\)\s*\{\s*self\.pc\.restore_signaling\(snapshot\)", drop_body):
            raise Untranslatable("SignalingUndo::drop no longer restores the snapshot")
        _, _, nb = find_fn(src, "new", "SignalingUndo<'a>") if re.search(r"impl<'a>\s+SignalingUndo<'a>", src) else ("", "", "")
        if "pc.signaling_snapshot()" not in src[src.find("impl<'a> SignalingUndo<'a>"):mm.start()]:
            raise Untranslatable("SignalingUndo::new no longer takes the snapshot")
        db = src[src.find("fn disarm(&mut self)"):]
        if not re.match(r"fn disarm\(&mut self\)\s*\{\s*self\.snapshot\s*=\s*None\s*;\s*\}", db):
            raise Untranslatable("SignalingUndo::disarm changed shape")
    for nm, v in (("set_remote", g_remote), ("create_offer", g_offer), ("create_answer", g_answer)):
        m.raw("Definition %s_restores_on_error : bool := %s." % (nm, "true" if v else "false"),
              "fn %s restore-on-error guard (SignalingUndo drop guard: signaling_snapshot / restore_signaling)" % nm, PC)

    # ---- serialisation of signalling calls: the operation lock and the atomic transition
    def holds_lock(fn, sync):
        _, _, bd = find_fn(src, fn)
        pat = (r"^\{\s*let\s+_op\s*=\s*self\.inner\.signaling_lock\.try_lock\(\)\.map_err\(" if sync
               else r"let\s+_op\s*=\s*self\.inner\.signaling_lock\.lock\(\)\.await\s*;")
        mm = re.search(pat, bd)
        if not mm:
            return False
        first = min([x for x in (bd.find("signaling_state"), bd.find("signaling_transition"), bd.find("SignalingUndo::new")) if x >= 0] or [10 ** 9])
        if mm.start() > first:
            raise Untranslatable("%s: the signaling lock is taken after the state is read" % fn)
        return True
    locks = [holds_lock("create_offer", False), holds_lock("create_answer", False), holds_lock("set_remote_description", False),
             holds_lock("set_local_description", True)]
    if any(locks) and not all(locks):
        raise Untranslatable("only some of the four signalling calls take signaling_lock: %r" % locks)
    if all(locks) and not re.search(r"signaling_lock\s*:\s*tokio::sync::Mutex<\(\)>", src):
        raise Untranslatable("signaling_lock is not a tokio::sync::Mutex<()>")
    m.raw("Definition signalling_calls_serialised : bool := %s." % ("true" if all(locks) else "false"),
          "signaling_lock held by create_offer / create_answer / set_remote_description (lock().await) and set_local_description (try_lock)", PC)
    if atomic_local != atomic_remote:
        raise Untranslatable("set_local_description and set_remote_description use different kinds of state transition")
    if atomic_local:
        _, _, tb = find_fn(src, "signaling_transition")
        if not re.search(r"self\.signaling_state\.send_if_modified\(\|state\|\s*\{\s*accepted\s*=\s*\*state\s*==\s*required\s*;\s*match\s+next\s*\{\s*Some\(next\)\s+if\s+accepted\s*&&\s*\*state\s*!=\s*next\s*=>\s*\{\s*\*state\s*=\s*next\s*;\s*true\s*\}\s*_\s*=>\s*false\s*,?\s*\}\s*\}\)\s*;\s*accepted", tb):
            raise Untranslatable("signaling_transition is no longer a single send_if_modified check-and-set")
    m.raw("Definition transition_atomic : bool := %s." % ("true" if atomic_local else "false"),
          "state check and transition of the setters are one atomic send_if_modified (signaling_transition)", PC)

    # ---- allocate_mid: fetch_add(1) on an AtomicU16
    _, _, body = find_fn(src, "allocate_mid")
    mm = re.search(r"next_mid\.fetch_add\(\s*(\d+)\s*,", body)
    fld = re.search(r"next_mid\s*:\s*(AtomicU16)", src)
    if not mm or not fld:
        raise Untranslatable("allocate_mid: next_mid.fetch_add(K) on AtomicU16 not found")
    m.raw("Definition allocate_mid_step : Z := %s." % mm.group(1), "fn allocate_mid", PC)
    return m


def _wrap(f):
    """rs2v.py runs as __main__ and catches *its own* Untranslatable; `import rs2v` gives the plugin a second
    copy of the module, so re-raise with the class main() catches (a failed extraction must be a reported
    broken tie, never a crash of the translator)."""
    def g():
        try:
            return f()
        except Untranslatable as e:
            cls = getattr(sys.modules.get("__main__"), "Untranslatable", None)
            if cls is not None and cls is not Untranslatable:
                raise cls(str(e))
            raise
        except (ValueError, IndexError, AttributeError) as e:   # str.index etc. on an unexpected shape
            cls = getattr(sys.modules.get("__main__"), "Untranslatable", None) or Untranslatable
            raise cls("gen_c09: unexpected source shape (%s: %s)" % (type(e).__name__, e))
    return g


MODULES = {"Signaling": _wrap(gen_signaling)}
