"""C09 translator plugin: Gen/Signaling.v

Regenerated from /repo/src/peer_connection.rs (+ sdp.rs, config.rs) on every run:
  * the enums SignalingState, SdpType, TransceiverDirection, MediaKind, TransportMode
  * the implemented signalling table: required state / transition target of
    create_offer, create_answer, set_local_description(type), set_remote_description(type)
    (match arms `SdpType::T => { if *state.borrow() != SignalingState::R {..Err..} [state.send(SignalingState::N)] }`)
  * validate_sdp_type (which types are accepted at all)
  * the ORDER OF EFFECTS the atomicity theorems depend on, as booleans:
      set_local_check_first        state check precedes set_mid/update_payload_map/update_extmap
      set_remote_next_mid_after_check   next_mid.fetch_max follows the state check
      set_remote_fp_check_early    the "changing remote DTLS fingerprint" refusal precedes handle_reinvite
  * the next_mid bump `fetch_max(mid_val + K)` / `fetch_max(mid_val.saturating_add(K))`
The model (Model/Signaling.v) branches on these values, so a source change re-checks the
proofs against what the code says now.  Anything that no longer has the expected shape raises
Untranslatable (never guessed).
"""
import re
import sys
import rs2v
from rs2v import Module, Untranslatable, strip_comments, read, find_fn

PC = "src/peer_connection.rs"


def _arms(body, what):
    """parse the `match desc.sdp_type { SdpType::T => {...} ... }` state-check block of a setter"""
    m = re.search(r"let\s+state\s*=\s*&self\.inner\.signaling_state\s*;\s*match\s+desc\.sdp_type\s*\{", body)
    if not m:
        raise Untranslatable("%s: state-check match block not found" % what)
    end = rs2v.balanced(body, m.end() - 1)
    blk = body[m.end():end - 1]
    rules = {}
    pos = 0
    while True:
        mm = re.compile(r"SdpType::([A-Za-z]+)\s*=>\s*\{").search(blk, pos)
        if not mm:
            break
        aend = rs2v.balanced(blk, mm.end() - 1)
        arm = blk[mm.end():aend - 1]
        pos = aend
        t = mm.group(1)
        req = re.findall(r"if\s+\*state\.borrow\(\)\s*!=\s*SignalingState::([A-Za-z]+)\s*\{\s*return\s+Err\(\s*RtcError::InvalidState", arm)
        snd = re.findall(r"state\.send\(SignalingState::([A-Za-z]+)\)", arm)
        if not req:
            if re.search(r"^\s*return\s+Err\(RtcError::NotImplemented", arm):
                rules[t] = None
                continue
            raise Untranslatable("%s: arm %s has no recognisable state check" % (what, t))
        if len(req) != 1 or len(snd) > 1:
            raise Untranslatable("%s: arm %s has an unexpected shape" % (what, t))
        # the check must precede the send
        if snd and arm.index("state.send(") < arm.index("state.borrow()"):
            raise Untranslatable("%s: arm %s sends before checking" % (what, t))
        rules[t] = (req[0], snd[0] if snd else None)
    return rules, m.start()


def _rule_def(name, rules, variants):
    lines = ["Definition %s (t : SdpType) : option (SignalingState * option SignalingState) :=\n  match t with" % name]
    for v in variants:
        if v not in rules:
            raise Untranslatable("%s: no arm for SdpType::%s" % (name, v))
        r = rules[v]
        if r is None:
            lines.append("  | SdpType_%s => None" % v)
        else:
            lines.append("  | SdpType_%s => Some (SignalingState_%s, %s)" % (
                v, r[0], "Some SignalingState_%s" % r[1] if r[1] else "None"))
    lines.append("  end.")
    return "\n".join(lines)


def gen_signaling():
    m = Module("Signaling")
    m.add_enum(PC, "SignalingState")
    m.add_enum("src/sdp.rs", "SdpType")
    m.add_enum(PC, "TransceiverDirection")
    m.add_enum("src/sdp.rs", "MediaKind")
    m.add_enum("src/config.rs", "TransportMode")
    variants = m.gen.enums["SdpType"]
    src = strip_comments(read(PC))

    # ---- create_offer / create_answer preconditions
    for fn in ("create_offer", "create_answer"):
        _, _, body = find_fn(src, fn)
        mm = re.search(r"let\s+state\s*=\s*&self\.inner\.signaling_state\s*;\s*if\s+\*state\.borrow\(\)\s*!=\s*SignalingState::([A-Za-z]+)\s*\{\s*return\s+Err\(\s*RtcError::InvalidState", body)
        if not mm:
            raise Untranslatable("%s: precondition on the signaling state not found at function entry" % fn)
        if body.index("signaling_state") > 120:
            raise Untranslatable("%s: state precondition is no longer the first statement" % fn)
        m.raw("Definition %s_required : SignalingState := SignalingState_%s." % (fn, mm.group(1)), "fn %s precondition" % fn, PC)

    # ---- validate_sdp_type
    _, _, body = find_fn(src, "validate_sdp_type")
    mm = re.search(r"match\s+sdp_type\s*\{\s*((?:SdpType::[A-Za-z]+\s*\|?\s*)+)=>\s*Ok\(\(\)\)\s*,\s*_\s*=>\s*Err\(RtcError::NotImplemented", body)
    if not mm:
        raise Untranslatable("validate_sdp_type: unexpected shape")
    ok = re.findall(r"SdpType::([A-Za-z]+)", mm.group(1))
    m.raw("Definition validate_sdp_type_ok (t : SdpType) : bool :=\n  match t with %s end." % " ".join(
        "| SdpType_%s => %s" % (v, "true" if v in ok else "false") for v in variants), "fn validate_sdp_type", PC)

    # ---- set_local_description
    _, _, body = find_fn(src, "set_local_description")
    rules, chk = _arms(body, "set_local_description")
    m.raw(_rule_def("set_local_rule", rules, variants), "fn set_local_description state table", PC)
    muts = [body.find(x) for x in (".set_mid(", ".update_payload_map(", ".update_extmap(")]
    if any(x < 0 for x in muts):
        raise Untranslatable("set_local_description: transceiver mutations (set_mid/update_payload_map/update_extmap) not found")
    store = body.find("*local = Some(desc)")
    val = body.find("validate_sdp_type")
    if store < 0 or val < 0 or not (val < chk < store and val < min(muts) < store):
        raise Untranslatable("set_local_description: validate / state check / store order not recognised")
    if min(muts) < chk < max(muts):
        raise Untranslatable("set_local_description: state check sits between transceiver mutations")
    m.raw("Definition set_local_check_first : bool := %s." % ("true" if chk < min(muts) else "false"),
          "fn set_local_description order of state check vs transceiver mutation", PC)

    # ---- set_remote_description
    _, _, body = find_fn(src, "set_remote_description")
    rules, chk = _arms(body, "set_remote_description")
    m.raw(_rule_def("set_remote_rule", rules, variants), "fn set_remote_description state table", PC)
    bump = re.search(r"next_mid\s*\.fetch_max\(\s*mid_val\s*(\+|\.saturating_add\(|\.wrapping_add\()\s*(\d+)\s*\)?\s*,", body)
    if not bump or len(re.findall(r"next_mid\s*\.fetch_max", body)) != 1:
        raise Untranslatable("set_remote_description: next_mid.fetch_max(mid_val + K | mid_val.saturating_add(K)) not found exactly once")
    if not re.search(r"if\s+let\s+Ok\(mid_val\)\s*=\s*section\.mid\.parse::<u16>\(\)", body):
        raise Untranslatable("set_remote_description: mid_val is no longer `section.mid.parse::<u16>()`")
    m.raw("Definition next_mid_bump : Z := %s." % bump.group(2), "fn set_remote_description next_mid bump", PC)
    m.raw("Definition next_mid_bump_saturating : bool := %s." % ("true" if "saturating" in bump.group(1) else "false"),
          "fn set_remote_description next_mid bump: saturating_add vs + / wrapping_add on u16", PC)
    reinv = body.find("handle_reinvite(")
    unchanged = body.find("!media_parameters_changed")
    fps = [x.start() for x in re.finditer(r"changing remote DTLS fingerprint", body)]
    if reinv < 0 or unchanged < 0 or not fps or not (reinv < chk < unchanged):
        raise Untranslatable("set_remote_description: reinvite / state check / unchanged-shortcut order not recognised")
    if fps[-1] < unchanged:
        raise Untranslatable("set_remote_description: the late fingerprint check (which stores the fingerprint) moved")
    if not (bump.start() < chk or chk < bump.start() < unchanged):
        raise Untranslatable("set_remote_description: next_mid update moved behind the unchanged-description shortcut")
    m.raw("Definition set_remote_next_mid_after_check : bool := %s." % ("true" if bump.start() > chk else "false"),
          "fn set_remote_description order of next_mid update vs state check", PC)
    m.raw("Definition set_remote_fp_check_early : bool := %s." % ("true" if fps[0] < reinv else "false"),
          "fn set_remote_description order of fingerprint-change refusal vs reinvite application", PC)

    # ---- allocate_mid: fetch_add(1) on an AtomicU16
    _, _, body = find_fn(src, "allocate_mid")
    mm = re.search(r"next_mid\.fetch_add\(\s*(\d+)\s*,", body)
    fld = re.search(r"next_mid\s*:\s*(AtomicU16)", src)
    if not mm or not fld:
        raise Untranslatable("allocate_mid: next_mid.fetch_add(K) on AtomicU16 not found")
    m.raw("Definition allocate_mid_step : Z := %s." % mm.group(1), "fn allocate_mid", PC)
    return m


def _wrap(f):
    """rs2v.py runs as __main__ and catches *its own* Untranslatable; `import rs2v` gives the plugin a second
    copy of the module, so re-raise with the class main() catches (a failed extraction must be a reported
    broken tie, never a crash of the translator)."""
    def g():
        try:
            return f()
        except Untranslatable as e:
            cls = getattr(sys.modules.get("__main__"), "Untranslatable", None)
            if cls is not None and cls is not Untranslatable:
                raise cls(str(e))
            raise
        except (ValueError, IndexError, AttributeError) as e:   # str.index etc. on an unexpected shape
            cls = getattr(sys.modules.get("__main__"), "Untranslatable", None) or Untranslatable
            raise cls("gen_c09: unexpected source shape (%s: %s)" % (type(e).__name__, e))
    return g


MODULES = {"Signaling": _wrap(gen_signaling)}
