"""rs2v plugin for C10: Gen/Nego.v -- the negotiation tables the C10 theorems are stated over.

Translated from /repo on every run (anchored regular expressions on the comment-stripped source,
Untranslatable when a shape is not the expected one -- never guessed):

  src/config.rs
    * enums TransportMode, BundlePolicy, RtcpMuxPolicy, IceTcpPolicy, SdpCompatibilityMode
      (the axes of the configuration lattice: a new variant changes `*_all`, hence the lattice)
    * census: `bundle_policy` is read nowhere outside config.rs (the model treats it as inert)
  src/peer_connection.rs
    * set_remote_description: `a=setup` string -> is_client table, the "only when no role yet"
      guard, the direct-mode (Rtp/Srtp) constant role, first-attribute-wins (`break`)
    * populate_media_capabilities: (sdp type, role) -> `a=setup` string table and its WebRtc guard
    * build_description: will_bundle / local_offers_rtcp_mux expressions (shape check) and the SDES
      suite literal / answer rule; the modes in which every non-BUNDLE section advertises its own socket
    * set_remote_description: the modes in which those per-section transports are configured
    * setup_srtp: SRTP profile code table, key_len / salt_len tables, total_len expression, the four
      exporter slices, the (tx_key, tx_salt, rx_key, rx_salt) order for client and server, exporter label
    * setup_sdes: which description is tx / rx, the (key_len, salt_len) table, the slice bounds
    * map_crypto_suite: suite string -> profile table
  src/srtp.rs
    * enum SrtpProfile, SrtpProfile::{key_len, salt_len} (to prove setup_srtp's private tables agree)
  src/transports/dtls/mod.rs
    * the use_srtp profile list offered in ClientHello and the server's selection rule
"""
import re
import sys

_main = sys.modules.get("__main__")
if _main is not None and hasattr(_main, "Untranslatable") and hasattr(_main, "Module"):
    rs2v = _main            # rs2v.py run as a script: use ITS exception class so failures are recorded
else:
    import rs2v             # imported as a library

Module, Untranslatable, P, tokenize = rs2v.Module, rs2v.Untranslatable, rs2v.P, rs2v.tokenize
strip_comments, read, find_fn, balanced = rs2v.strip_comments, rs2v.read, rs2v.find_fn, rs2v.balanced

PC = "src/peer_connection.rs"
CFG = "src/config.rs"
SRTP = "src/srtp.rs"
DTLS = "src/transports/dtls/mod.rs"

SETUPS = ["active", "passive", "actpass", "holdconn"]  # RFC 4145 values; anything else is Setup_other


def norm(s):
    return re.sub(r"\s+", " ", s).strip()


def one(rx, text, what, flags=0):
    ms = list(re.finditer(rx, text, flags))
    if len(ms) != 1:
        raise Untranslatable("%s: expected exactly one match, found %d" % (what, len(ms)))
    return ms[0]


def setup_ctor(lit, what):
    if lit not in SETUPS:
        raise Untranslatable("%s: unexpected setup literal %r" % (what, lit))
    return "Setup_" + lit


def bool_of(tok, what):
    if tok not in ("true", "false"):
        raise Untranslatable("%s: expected a boolean literal, got %r" % (what, tok))
    return tok


# ------------------------------------------------------------------ setup -> role (set_remote_description)
def gen_setup_to_role(m, src):
    _, _, body = find_fn(src, "set_remote_description", "PeerConnection")
    b = norm(body)
    rx = (r"let current_role = \*self\.inner\.dtls_role\.borrow\(\); if current_role\.is_none\(\) \{ "
          r"let mut new_role = None; "
          r"if self\.config\(\)\.transport_mode == TransportMode::Rtp \|\| self\.config\(\)\.transport_mode == TransportMode::Srtp "
          r"\{ new_role = Some\((?P<direct>true|false)\); \} else \{ "
          r"let setup_attrs = desc (?P<chain>[^;]+); "
          r"for attr in setup_attrs \{ "
          r"if attr\.key == \"setup\" && let Some\(val\) = &attr\.value \{ "
          r"let is_client = match val\.as_str\(\) \{ (?P<arms>[^}]*) \}; "
          r"new_role = Some\(is_client\); break; \} \} \} "
          r"if let Some\(r\) = new_role \{ let _ = self\.inner\.dtls_role\.send\(Some\(r\)\); \} \}")
    mm = one(rx, b, "set_remote_description: DTLS role derivation block")
    # where the a=setup value is looked for, in order (first match wins)
    chain = mm.group("chain").replace(" ", "")
    levels = []
    rest = chain
    pieces = {".media_sections.iter().flat_map(|section|section.attributes.iter())": "Level_media",
              "desc.media_sections.iter().flat_map(|section|section.attributes.iter())": "Level_media",
              "desc.session.attributes.iter()": "Level_session", ".session.attributes.iter()": "Level_session"}
    first = True
    while rest:
        if not first:
            if not rest.startswith(".chain("):
                raise Untranslatable("setup->role: unexpected attribute iterator " + rest[:60])
            inner_end = rest.rfind(")") if rest.count(".chain(") == 1 else None
            # one chained source per .chain(...)
            depth = 0
            for k, ch in enumerate(rest[len(".chain"):]):
                depth += ch == "("
                depth -= ch == ")"
                if depth == 0:
                    inner_end = len(".chain") + k
                    break
            piece, rest = rest[len(".chain("):inner_end], rest[inner_end + 1:]
        else:
            piece = None
            for cand in pieces:
                if rest.startswith(cand):
                    piece, rest = cand, rest[len(cand):]
                    break
            if piece is None:
                raise Untranslatable("setup->role: unexpected attribute iterator " + rest[:60])
        if piece not in pieces:
            raise Untranslatable("setup->role: unexpected attribute source " + piece[:60])
        levels.append(pieces[piece])
        first = False
    if len(set(levels)) != len(levels):
        raise Untranslatable("setup->role: attribute source listed twice")
    arms = [a.strip() for a in mm.group("arms").split(",") if a.strip()]
    table = {}
    default = None
    for a in arms:
        am = re.match(r'^"([a-z]+)" => (true|false)$', a)
        if am:
            if default is not None:
                raise Untranslatable("setup->role: literal arm after the wildcard")
            if am.group(1) in table:
                raise Untranslatable("setup->role: duplicate arm " + am.group(1))
            setup_ctor(am.group(1), "setup->role")
            table[am.group(1)] = am.group(2)
            continue
        am = re.match(r"^_ => (true|false)$", a)
        if am:
            default = am.group(1)
            continue
        raise Untranslatable("setup->role: unexpected match arm %r" % a)
    if default is None:
        raise Untranslatable("setup->role: no wildcard arm")
    lines = ["Definition setup_is_client (s : Setup) : bool :=", "  match s with"]
    for s in SETUPS:
        lines.append("  | Setup_%s => %s" % (s, table.get(s, default)))
    lines.append("  | Setup_other => %s" % default)
    lines.append("  end.")
    m.raw("\n".join(lines), "set_remote_description: a=setup -> is_client table", PC)
    m.raw("Definition direct_mode_is_client : bool := %s." % mm.group("direct"),
          "set_remote_description: constant role of Rtp/Srtp modes", PC)
    m.raw("(* the role is derived only while dtls_role is None, from the first a=setup attribute found *)\n"
          "Definition role_set_once : bool := true.\nDefinition first_setup_attribute_wins : bool := true.\n"
          "(* where a=setup is looked for, in order: all media sections' attributes, then the session's *)\n"
          "Inductive SetupLevel : Set := Level_media | Level_session.\n"
          "Definition setup_lookup_order : list SetupLevel := [%s]." % "; ".join(levels),
          "set_remote_description: role guard (current_role.is_none), first-match loop, lookup order (media / session level)", PC)


# ------------------------------------------------------------------ role -> setup (populate_media_capabilities)
def gen_role_to_setup(m, src):
    _, _, body = find_fn(src, "populate_media_capabilities", "PeerConnectionInner")
    b = norm(body)
    rx = (r"if self\.config\.transport_mode == TransportMode::WebRtc \{ let setup_value = match sdp_type \{ "
          r"SdpType::Offer => \"(?P<offer>[a-z]+)\", "
          r"SdpType::Answer => \{ let role = \*self\.dtls_role\.borrow\(\); match role \{ "
          r"Some\(true\) => \"(?P<t>[a-z]+)\", Some\(false\) => \"(?P<f>[a-z]+)\", None => \"(?P<n>[a-z]+)\", \} \} "
          r"_ => \"(?P<other>[a-z]+)\", \}; "
          r"section\.add_dtls_attributes\(&self\.dtls_fingerprint, setup_value\); \}")
    mm = one(rx, b, "populate_media_capabilities: a=setup emission block")
    g = {k: setup_ctor(mm.group(k), "role->setup") for k in ("offer", "t", "f", "n", "other")}
    m.raw("Inductive SdpKind : Set := Sdp_Offer | Sdp_Answer | Sdp_Pranswer.\n"
          "Definition setup_of_role (k : SdpKind) (role : option bool) : Setup :=\n"
          "  match k with\n"
          "  | Sdp_Offer => %(offer)s\n"
          "  | Sdp_Answer => match role with Some true => %(t)s | Some false => %(f)s | None => %(n)s end\n"
          "  | Sdp_Pranswer => %(other)s\n"
          "  end." % g, "populate_media_capabilities: (sdp type, role) -> a=setup table", PC)
    m.raw("(* a=setup / a=fingerprint are emitted only when transport_mode == WebRtc *)\n"
          "Definition mode_emits_setup (t : TransportMode) : bool :=\n"
          "  match t with TransportMode_WebRtc => true | _ => false end.",
          "populate_media_capabilities: WebRtc guard of the DTLS attributes", PC)
    # where add_dtls_attributes is called: exactly once in the file (so every section gets the same value)
    if len(re.findall(r"\.add_dtls_attributes\(", src)) != 1:
        raise Untranslatable("add_dtls_attributes is called from more than one place")


# ------------------------------------------------------------------ build_description flags
def gen_build_flags(m, src):
    _, _, body = find_fn(src, "build_description", "PeerConnectionInner")
    b = norm(body)
    # will_bundle: `[<outer conjuncts> &&] match sdp_type { Offer => <conj>, Answer => <conj>, _ => false }` where every
    # conjunct is one of three known atoms; both historical shapes (outer LegacySip test / per-arm test) parse
    atoms = {"self.config.sdp_compatibility != crate::config::SdpCompatibilityMode::LegacySip":
             "(negb (SdpCompatibilityMode_eqb compat SdpCompatibilityMode_LegacySip))",
             "ordered_transceivers.len() > 1": "(Z.gtb n_sections 1)",
             "remote_offered_bundle": "remote_offered_bundle"}

    def conj(text, allowed, what):
        text = text.strip()
        if text.startswith("{") and text.endswith("}"):
            text = text[1:-1].strip()
        out = []
        for part in [x.strip() for x in text.split("&&")]:
            if part not in atoms or part not in allowed:
                raise Untranslatable("build_description: will_bundle (%s): unexpected conjunct %r" % (what, part))
            out.append(atoms[part])
        return out
    wm = one(r"let will_bundle = (?P<outer>(?:[^;{]+? && )?)match sdp_type \{ SdpType::Offer => (?P<offer>\{[^}]*\}|[^,{}]+),? "
             r"SdpType::Answer => (?P<answer>\{[^}]*\}|[^,{}]+),? _ => false, \};", b, "build_description: will_bundle")
    compat_atom = "self.config.sdp_compatibility != crate::config::SdpCompatibilityMode::LegacySip"
    outer = conj(wm.group("outer").rstrip().rstrip("&").rstrip(), [compat_atom], "outer") if wm.group("outer").strip() else []
    offer = outer + conj(wm.group("offer"), [compat_atom, "ordered_transceivers.len() > 1"], "offer arm")
    answer = outer + conj(wm.group("answer"), [compat_atom, "remote_offered_bundle"], "answer arm")
    if "(Z.gtb n_sections 1)" not in offer or "remote_offered_bundle" not in answer:
        raise Untranslatable("build_description: will_bundle lost its section-count / remote-offer condition")
    mux = ("let local_offers_rtcp_mux = self.config.rtcp_mux_policy == crate::config::RtcpMuxPolicy::Require "
           "&& self.config.sdp_compatibility != crate::config::SdpCompatibilityMode::LegacySip;")
    if b.count(mux) != 1:
        raise Untranslatable("build_description: local_offers_rtcp_mux expression changed")
    m.raw("Definition offer_will_bundle (compat : SdpCompatibilityMode) (n_sections : Z) : bool :=\n"
          "  %s.\n"
          "Definition answer_will_bundle (compat : SdpCompatibilityMode) (remote_offered_bundle : bool) : bool :=\n"
          "  %s.\n" % (" && ".join(offer), " && ".join(answer)) +
          "Definition local_offers_rtcp_mux (pol : RtcpMuxPolicy) (compat : SdpCompatibilityMode) : bool :=\n"
          "  (RtcpMuxPolicy_eqb pol RtcpMuxPolicy_Require) && (negb (SdpCompatibilityMode_eqb compat SdpCompatibilityMode_LegacySip)).",
          "build_description: will_bundle / local_offers_rtcp_mux", PC)
    # SDES suite: the offer literal and the answer rule
    rx = (r"if self\.config\.transport_mode == TransportMode::Srtp \{ let mut suite = \"(?P<suite>[A-Z0-9_]+)\"\.to_string\(\); "
          r"if sdp_type == SdpType::Answer \{ let remote_desc = self\.remote_description\.lock\(\); "
          r"if let Some\(remote\) = &\*remote_desc && let Some\(c\) = remote \.media_sections \.iter\(\) "
          r"\.flat_map\(\|m\| m\.get_crypto_attributes\(\)\) \.find\(\|c\| map_crypto_suite\(&c\.crypto_suite\)\.is_ok\(\)\) "
          r"\{ suite = c\.crypto_suite\.clone\(\); \} \}")
    mm = one(rx, b, "build_description: SDES suite selection")
    return mm.group("suite")



# ------------------------------------------------------------------ per-section direct transports (Rtp / Srtp modes)
def mode_list(expr, var, what):
    """`<var> == TransportMode::A || <var> == TransportMode::B` -> ['A', 'B']"""
    out = []
    for part in expr.split("||"):
        pm = re.match(r"^\s*%s == TransportMode::([A-Za-z]+)\s*$" % re.escape(var), part)
        if not pm:
            raise Untranslatable("%s: unexpected mode test %r" % (what, part.strip()))
        out.append(pm.group(1))
    return out


def gen_section_transports(m, src):
    """who ADVERTISES one socket per non-BUNDLE section (build_description) and who CONFIGURES them from the
    remote description (set_remote_description)"""
    _, _, body = find_fn(src, "build_description", "PeerConnectionInner")
    b = norm(body)
    mm = one(r"let section_ice_transport = if (?P<modes>[^{]+?) \{ let ice_transport = if !will_bundle && media_index > 0 \{ "
             r"self\.direct_rtp_ice_transport\(transceiver\.id\(\), false\) \} else \{ self\.ice_transport\.clone\(\) \};",
             b, "build_description: per-section direct transport selection")
    adv = mode_list(mm.group("modes"), "mode", "build_description")
    _, _, body = find_fn(src, "set_remote_description", "PeerConnection")
    b = norm(body)
    mm = one(r"if (?P<modes>self\.config\(\)\.transport_mode == TransportMode::[A-Za-z]+(?: \|\| self\.config\(\)\.transport_mode == TransportMode::[A-Za-z]+)*) "
             r"\{ self\.configure_rtp_media_transports_from_remote\(&desc, ufrag, pwd, candidates\) \.await\?; \}",
             b, "set_remote_description: per-section transport configuration")
    conf = mode_list(mm.group("modes"), "self.config().transport_mode", "set_remote_description")
    # the single-transport path of the other direct mode: start_direct on the address of the LAST section
    if b.count("remote_addr = Some(std::net::SocketAddr::new(ip, section.port));") != 1 or \
       "} else if let Some(addr) = remote_addr { self.inner .ice_transport .start_direct(addr) .await" not in b:
        raise Untranslatable("set_remote_description: SRTP-mode start_direct(last section address) changed")
    variants = m.gen.enums["TransportMode"]
    for v in adv + conf:
        if v not in variants:
            raise Untranslatable("unknown transport mode " + v)

    def table(name, modes):
        return ("Definition %s (t : TransportMode) : bool :=\n  match t with %s end." %
                (name, " ".join("| TransportMode_%s => %s" % (v, "true" if v in modes else "false") for v in variants)))
    m.raw(table("mode_advertises_section_transports", adv),
          "build_description: modes in which a non-first section of a non-BUNDLE description gets its own socket", PC)
    m.raw(table("mode_configures_section_transports", conf),
          "set_remote_description: modes in which per-section transports are configured from the remote description", PC)

# ------------------------------------------------------------------ SRTP profile tables
def match_arms(text, what):
    """`A | B => n, _ => m` (profile patterns) -> [(set_of_variants or None, int)]"""
    out = []
    text = re.sub(r"\((\d+), (\d+)\)", r"(\1;\2)", text)
    for a in [x.strip() for x in text.split(",") if x.strip()]:
        a = a.replace(";", ",")
        am = re.match(r"^(.+?) => \(?([0-9, ]+)\)?$", a)
        if not am:
            raise Untranslatable("%s: unexpected arm %r" % (what, a))
        pats = [p.strip() for p in am.group(1).split("|")]
        vals = [int(x) for x in am.group(2).replace(" ", "").split(",")]
        if pats == ["_"]:
            out.append((None, vals))
        else:
            vs = []
            for p in pats:
                pm = re.match(r"^crate::srtp::SrtpProfile::([A-Za-z0-9_]+)$", p)
                if not pm:
                    raise Untranslatable("%s: unexpected pattern %r" % (what, p))
                vs.append(pm.group(1))
            out.append((vs, vals))
    return out


def profile_fn(m, name, arms, idx, variants, what):
    """emit Definition name (p : SrtpProfile) : Z from first-match arms"""
    lines = ["Definition %s (p : SrtpProfile) : Z :=" % name, "  match p with"]
    for v in variants:
        val = None
        for vs, vals in arms:
            if vs is None or v in vs:
                val = vals[idx]
                break
        if val is None:
            raise Untranslatable("%s: no arm covers %s" % (what, v))
        lines.append("  | SrtpProfile_%s => %d" % (v, val))
    lines.append("  end.")
    for vs, _ in arms:
        for v in vs or []:
            if v not in variants:
                raise Untranslatable("%s: unknown profile %s" % (what, v))
    m.raw("\n".join(lines), what, PC)


def gen_setup_srtp(m, src, variants):
    _, _, body = find_fn(src, "setup_srtp", "PeerConnection")
    b = norm(body)
    mm = one(r"let profile = match profile_opt \{ (?P<arms>[^}]*) \};", b, "setup_srtp: profile code table")
    codes = []
    default = None
    for a in [x.strip() for x in mm.group("arms").split(",") if x.strip()]:
        am = re.match(r"^Some\((0x[0-9A-Fa-f]+|\d+)\) => crate::srtp::SrtpProfile::([A-Za-z0-9_]+)$", a)
        if am:
            if default is not None:
                raise Untranslatable("setup_srtp: code arm after wildcard")
            codes.append((rs2v.parse_int(am.group(1))[0], am.group(2)))
            continue
        am = re.match(r"^_ => crate::srtp::SrtpProfile::([A-Za-z0-9_]+)$", a)
        if am:
            default = am.group(1)
            continue
        raise Untranslatable("setup_srtp: unexpected profile arm %r" % a)
    if default is None or not codes:
        raise Untranslatable("setup_srtp: profile table without codes / wildcard")
    for _, v in codes + [(0, default)]:
        if v not in variants:
            raise Untranslatable("setup_srtp: unknown profile " + v)
    expr = "SrtpProfile_%s" % default
    for c, v in reversed(codes):
        expr = "if Z.eqb c %d then SrtpProfile_%s else %s" % (c, v, expr)
    m.raw("Definition srtp_profile_codes : list Z := [%s].\n"
          "Definition srtp_profile_default : SrtpProfile := SrtpProfile_%s.\n"
          "Definition srtp_profile_of_code (code : option Z) : SrtpProfile :=\n"
          "  match code with\n  | Some c => %s\n  | None => SrtpProfile_%s\n  end."
          % ("; ".join(str(c) for c, _ in codes), default, expr, default),
          "setup_srtp: DTLS use_srtp code -> SrtpProfile table", PC)
    kl = one(r"let key_len = match profile \{ (?P<arms>[^}]*) \};", b, "setup_srtp: key_len table")
    sl = one(r"let salt_len = match profile \{ (?P<arms>[^}]*) \};", b, "setup_srtp: salt_len table")
    profile_fn(m, "dtls_key_len", match_arms(kl.group("arms"), "setup_srtp key_len"), 0, variants, "setup_srtp: key_len table")
    profile_fn(m, "dtls_salt_len", match_arms(sl.group("arms"), "setup_srtp salt_len"), 0, variants, "setup_srtp: salt_len table")

    env = {"key_len": ("key_len", "usize"), "salt_len": ("salt_len", "usize")}

    def zexpr(s):
        ast = P(tokenize(s)).parse_expr()
        out, _ = m.gen.expr(ast, env, "usize")
        return out

    tl = one(r"let total_len = ([^;]+);", b, "setup_srtp: total_len")
    m.raw("Definition dtls_total_len (key_len salt_len : Z) : Z := %s." % zexpr(tl.group(1)), "setup_srtp: total_len", PC)
    lab = one(r"dtls\.export_keying_material\(\"([A-Za-z_-]+)\", total_len\)", b, "setup_srtp: exporter call")
    if lab.group(1) != "EXTRACTOR-dtls_srtp":
        raise Untranslatable("setup_srtp: exporter label is %r (RFC 5764 says EXTRACTOR-dtls_srtp)" % lab.group(1))
    slots = {}
    for nm in ("client_key", "server_key", "client_salt", "server_salt"):
        sm = one(r"let %s = &mat\[([^\]]*?)\.\.([^\]]*?)\];" % nm, b, "setup_srtp: slice " + nm)
        lo = sm.group(1).strip() or "0"
        hi = sm.group(2).strip()
        lo_s = zexpr(lo)
        hi_s = zexpr(hi) if hi else "(dtls_total_len key_len salt_len)"
        slots[nm] = (lo_s, hi_s)
    lines = ["Inductive Slot : Set := Slot_client_key | Slot_server_key | Slot_client_salt | Slot_server_salt.",
             "Definition slot_bounds (s : Slot) (key_len salt_len : Z) : Z * Z :=", "  match s with"]
    for nm in ("client_key", "server_key", "client_salt", "server_salt"):
        lines.append("  | Slot_%s => (%s, %s)" % (nm, slots[nm][0], slots[nm][1]))
    lines.append("  end.")
    m.raw("\n".join(lines), "setup_srtp: exporter slices (client_key, server_key, client_salt, server_salt)", PC)
    om = one(r"let \(tx_key, tx_salt, rx_key, rx_salt\) = if is_client \{ \(([a-z_, ]+)\) \} else \{ \(([a-z_, ]+)\) \};", b,
             "setup_srtp: tx/rx order")

    def order(s):
        names = [x.strip() for x in s.split(",")]
        if len(names) != 4 or any(n not in slots for n in names):
            raise Untranslatable("setup_srtp: unexpected tx/rx tuple %r" % s)
        return "(Slot_%s, Slot_%s, Slot_%s, Slot_%s)" % tuple(names)
    m.raw("(* (tx_key, tx_salt, rx_key, rx_salt) *)\n"
          "Definition split_order (is_client : bool) : Slot * Slot * Slot * Slot :=\n"
          "  if is_client then %s else %s." % (order(om.group(1)), order(om.group(2))),
          "setup_srtp: (tx_key, tx_salt, rx_key, rx_salt) per role", PC)
    if "SrtpKeyingMaterial::new(tx_key.to_vec(), tx_salt.to_vec())" not in b or \
       "SrtpKeyingMaterial::new(rx_key.to_vec(), rx_salt.to_vec())" not in b or \
       "crate::srtp::SrtpSession::new(profile, tx_keying, rx_keying)" not in b:
        raise Untranslatable("setup_srtp: keying-material construction changed")


def gen_setup_sdes(m, src, variants, offer_suite):
    _, _, body = find_fn(src, "setup_sdes", "PeerConnection")
    b = norm(body)
    need = [
        "let remote_crypto = remote_desc .as_ref() .and_then(|d| d.media_sections.first()) .and_then(|m| m.get_crypto_attributes().into_iter().next());",
        "let local_crypto = local_desc .as_ref() .and_then(|d| d.media_sections.first()) .and_then(|m| m.get_crypto_attributes().into_iter().next());",
        "let profile = map_crypto_suite(&remote.crypto_suite)?; if profile != map_crypto_suite(&local.crypto_suite)? { return Err(RtcError::Internal(\"Crypto suite mismatch\".into())); }",
        "crate::srtp::SrtpSession::new(profile, tx_keying, rx_keying)",
    ]
    for n in need:
        if b.count(n) != 1:
            raise Untranslatable("setup_sdes: statement changed or missing: " + n[:60])
    mm = one(r"let \(key_len, salt_len\) = match profile \{ (?P<arms>[^}]*) \};", b, "setup_sdes: (key_len, salt_len) table")
    arms = match_arms(mm.group("arms"), "setup_sdes lens")
    profile_fn(m, "sdes_key_len", arms, 0, variants, "setup_sdes: key_len table")
    profile_fn(m, "sdes_salt_len", arms, 1, variants, "setup_sdes: salt_len table")
    env = {"key_len": ("key_len", "usize"), "salt_len": ("salt_len", "usize")}

    def zexpr(s):
        out, _ = m.gen.expr(P(tokenize(s)).parse_expr(), env, "usize")
        return out
    parts = {}
    for d in ("rx", "tx"):
        km = one(r"let %s_keying = crate::srtp::SrtpKeyingMaterial::new\( %s_key_salt\[\.\.([^\]]+)\]\.to_vec\(\), "
                 r"%s_key_salt\[([^\]]+?)\.\.([^\]]+)\]\.to_vec\(\), \);" % (d, d, d), b, "setup_sdes: %s slices" % d)
        parts[d] = (zexpr(km.group(1)), zexpr(km.group(2)), zexpr(km.group(3)))
    if parts["rx"] != parts["tx"]:
        raise Untranslatable("setup_sdes: rx and tx use different slice bounds")
    srcs = {}
    for d in ("rx", "tx"):
        sm = one(r"let %s_key_salt = parse_sdes_key_params\(&(remote|local)\.key_params\)\?;" % d, b, "setup_sdes: source of %s keying" % d)
        srcs[d] = sm.group(1)
    m.raw("(* which description's first a=crypto the tx / rx keying is cut from *)\n"
          "Inductive SdesSrc : Set := Sdes_local | Sdes_remote.\n"
          "Definition sdes_tx_source : SdesSrc := Sdes_%s.\nDefinition sdes_rx_source : SdesSrc := Sdes_%s.\n" % (srcs["tx"], srcs["rx"]) +
          "Definition sdes_key_hi (key_len salt_len : Z) : Z := %s.\n"
          "Definition sdes_salt_lo (key_len salt_len : Z) : Z := %s.\n"
          "Definition sdes_salt_hi (key_len salt_len : Z) : Z := %s." % parts["tx"],
          "setup_sdes: tx from local / rx from remote, slice bounds", PC)
    gm = one(r"let mut key_salt = \[0u8; (\d+)\];", norm(find_fn(src, "generate_sdes_key_params")[2]), "generate_sdes_key_params: length")
    m.raw("Definition sdes_generated_len : Z := %s." % gm.group(1), "generate_sdes_key_params: inline key||salt length", PC)
    # suite table
    _, _, mb = find_fn(src, "map_crypto_suite")
    suites = re.findall(r'"([A-Z0-9_]+)" => Ok\(crate::srtp::SrtpProfile::([A-Za-z0-9_]+)\)', mb)
    if not suites or "_ => Err(" not in norm(mb):
        raise Untranslatable("map_crypto_suite: table shape changed")
    for _, v in suites:
        if v not in variants:
            raise Untranslatable("map_crypto_suite: unknown profile " + v)
    names = [s for s, _ in suites]
    if offer_suite not in names:
        raise Untranslatable("build_description offers SDES suite %s which map_crypto_suite does not know" % offer_suite)
    lines = ["Inductive Suite : Set := %s | Suite_unknown." % " | ".join("Suite_" + s for s in names),
             "Definition Suite_all : list Suite := [%s; Suite_unknown]." % "; ".join("Suite_" + s for s in names),
             "Definition map_crypto_suite (s : Suite) : option SrtpProfile :=", "  match s with"]
    for s, v in suites:
        lines.append("  | Suite_%s => Some SrtpProfile_%s" % (s, v))
    lines.append("  | Suite_unknown => None\n  end.")
    lines.append("Definition sdes_offer_suite : Suite := Suite_%s." % offer_suite)
    lines.append("(* answer: the first remote a=crypto whose suite map_crypto_suite accepts, else the offer default *)")
    lines.append("Definition sdes_answer_suite (remote : list Suite) : Suite :=\n"
                 "  match find (fun s => match map_crypto_suite s with Some _ => true | None => false end) remote with\n"
                 "  | Some s => s | None => sdes_offer_suite end.")
    m.raw("\n".join(lines), "map_crypto_suite table, SDES offer suite and answer rule", PC)


def gen_dtls_profiles(m):
    src = strip_comments(read(DTLS))
    _, _, body = find_fn(src, "get_client_hello_extensions")
    b = norm(body)
    mm = one(r"extensions\.extend_from_slice\(&\[ 0x00, 0x0e, 0x00, (0x[0-9a-f]{2}), 0x00, (0x[0-9a-f]{2}), ((?:0x[0-9a-f]{2}, )+)0x00, \]\);",
             b, "get_client_hello_extensions: use_srtp extension")
    ext_len, list_len = int(mm.group(1), 16), int(mm.group(2), 16)
    bs = [int(x, 16) for x in re.findall(r"0x[0-9a-f]{2}", mm.group(3))]
    if len(bs) != list_len or list_len % 2 or ext_len != list_len + 3:
        raise Untranslatable("get_client_hello_extensions: inconsistent use_srtp lengths")
    profs = [bs[i] * 256 + bs[i + 1] for i in range(0, len(bs), 2)]
    m.raw("Definition dtls_offered_profiles : list Z := [%s]." % "; ".join(str(p) for p in profs),
          "get_client_hello_extensions: use_srtp profile list", DTLS)
    sel = ("let selected_profile = if srtp_profiles.contains(&0x0001) { 0x0001 } else { srtp_profiles[0] }; "
           "ctx.srtp_profile = Some(selected_profile);")
    if norm(src).count("if !srtp_profiles.is_empty() { " + sel) != 1:
        raise Untranslatable("DTLS server: use_srtp selection rule changed")
    if norm(src).count("let profile = u16::from_be_bytes([ext_data[2], ext_data[3]]); ctx.srtp_profile = Some(profile);") != 1:
        raise Untranslatable("DTLS client: use_srtp acceptance changed")
    m.raw("Definition dtls_select_profile (offered : list Z) : option Z :=\n"
          "  match offered with\n  | [] => None\n"
          "  | x :: _ => if existsb (Z.eqb 1) offered then Some 1 else Some x\n  end.\n"
          "(* the client adopts whatever single profile the ServerHello carries *)\n"
          "Definition dtls_client_accepts (server_choice : option Z) : option Z := server_choice.",
          "DTLS use_srtp: server selection rule, client adoption", DTLS)


def gen_srtp_lens(m):
    src = strip_comments(read(SRTP))
    for name in ("key_len", "salt_len"):
        params, ret, body = find_fn(src, name, "SrtpProfile")
        if norm(params) != "&self" or ret != "usize":
            raise Untranslatable("SrtpProfile::%s: unexpected signature" % name)
        body = body.replace("Self::", "SrtpProfile::")
        ast = P(tokenize(body)).parse_block()
        s, _ = m.gen.block(ast, {"self": ("p", "SrtpProfile")}, "usize")
        m.lines.append("Definition srtp_%s (p : SrtpProfile) : Z :=\n  %s." % (name, s))
        m.manifest.append({"item": "fn SrtpProfile::" + name, "file": SRTP})


def gen_census(m):
    """bundle_policy is configuration surface that no code reads: the lattice treats it as inert."""
    import os
    n = 0
    root = os.path.join(rs2v.REPO, "src")
    for d, _, fs in os.walk(root):
        for f in fs:
            if f.endswith(".rs"):
                p = os.path.join(d, f)
                rel = os.path.relpath(p, rs2v.REPO)
                if rel == CFG:
                    continue
                n += len(re.findall(r"\bbundle_policy\b", strip_comments(open(p).read())))
    if n != 0:
        raise Untranslatable("bundle_policy is now read outside config.rs (%d sites): the lattice model treats it as inert" % n)
    m.raw("Definition bundle_policy_read_sites : Z := 0.", "census: reads of config.bundle_policy outside config.rs", "src/")
    src = strip_comments(read(PC))
    sites = len(re.findall(r"\benable_ice_lite\b", src.split("#[cfg(test)]")[0]))
    m.raw("Definition ice_lite_read_sites_peer_connection : Z := %d." % sites, "census: reads of config.enable_ice_lite in peer_connection.rs", PC)


def gen_nego():
    m = Module("Nego")
    for e in ("TransportMode", "BundlePolicy", "RtcpMuxPolicy", "IceTcpPolicy", "SdpCompatibilityMode"):
        m.add_enum(CFG, e)
    m.add_enum(SRTP, "SrtpProfile")
    variants = m.gen.enums["SrtpProfile"]
    m.raw("Inductive Setup : Set := %s | Setup_other.\nDefinition Setup_all : list Setup := [%s; Setup_other]."
          % (" | ".join("Setup_" + s for s in SETUPS), "; ".join("Setup_" + s for s in SETUPS)),
          "a=setup values (RFC 4145) + any other string", PC)
    src = strip_comments(read(PC))
    gen_setup_to_role(m, src)
    gen_role_to_setup(m, src)
    offer_suite = gen_build_flags(m, src)
    gen_section_transports(m, src)
    gen_setup_srtp(m, src, variants)
    gen_setup_sdes(m, src, variants, offer_suite)
    gen_srtp_lens(m)
    gen_dtls_profiles(m)
    gen_census(m)
    return m


MODULES = {"Nego": gen_nego}
