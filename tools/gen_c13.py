"""C13 translator plugin: Gen/SctpSendGen.v -- literals and leaf arithmetic of the SCTP sender in
src/transports/sctp.rs that are not named `const` items, extracted by anchored regular
expressions from the comment-stripped bodies of the functions the C13 model mirrors:

  create_data_chunk        DATA header sizes, padding formula, order and width of the fields
  send_data_raw            B / E / U flag bits, `min(max_payload_size, DEFAULT_MAX_PAYLOAD_SIZE)`
  transmit                 default burst, effective-window expression, per-chunk budget charge,
                           batch cap, `budget > 0` loop guard
  transmit_chunks_with_tag the batching test
  send_packet_with_tag     common-header field order / widths, checksum offset and endianness
  handle_packet            the receiver's checksum split (header[..8] ++ 0000 ++ packet[12..])
  handle_timeout           ssthresh / cwnd after T3, the RETRANSMIT_BURST guard
  handle_sack              ssthresh auto-raise, fast-recovery entry arithmetic, cooldown
  apply_sack_to_sent_queue the 50 ms fast-retransmit cooldown constant
  maybe_send_tlp_probe     (shape only)

Every expectation that fails raises Untranslatable (the check then reports Gen/SctpSendGen.v as
a broken tie); nothing is guessed.
"""
import re
import sys

import rs2v
from rs2v import Module, strip_comments, read, find_fn, P, tokenize

# When rs2v.py runs as a script its classes live in __main__; raise the class its driver catches.
Untranslatable = getattr(sys.modules.get("__main__"), "Untranslatable", None) or rs2v.Untranslatable

SCTP = "src/transports/sctp.rs"


def _need(pattern, body, what, flags=re.S):
    m = re.search(pattern, body, flags)
    if not m:
        raise Untranslatable("%s: expected shape not found (/%s/)" % (what, pattern[:70]))
    return m


def _expr(m, src_expr, env, ty="usize"):
    ast = P(tokenize(src_expr)).parse_expr()
    s, _ = m.gen.expr(ast, env, ty)
    return s


def _seq(body, calls, what):
    """the given call texts occur in this order (each found after the previous one)"""
    pos = 0
    for c in calls:
        i = body.find(c, pos)
        if i < 0:
            raise Untranslatable("%s: `%s` not found in the expected order" % (what, c))
        pos = i + len(c)


def _find_free_fn(src, name, ret):
    """body of a free function whose parameter list contains parentheses (find_fn cannot parse it)"""
    mm = re.search(r"(?m)^fn\s+%s\s*\(" % re.escape(name), src)
    if not mm:
        raise Untranslatable("fn %s not found" % name)
    r = re.compile(r"\)\s*->\s*%s\s*\{" % re.escape(ret))
    m2 = r.search(src, mm.end())
    if not m2 or m2.start() - mm.end() > 600:
        raise Untranslatable("fn %s: return type %s not found" % (name, ret))
    end = rs2v.balanced(src, m2.end() - 1)
    return src[m2.end() - 1:end]


def gen_sctp_send():
    try:
        return _gen_sctp_send()
    except rs2v.Untranslatable as e:      # raised by helpers of the imported copy of rs2v
        raise Untranslatable(str(e))


def _gen_sctp_send():
    m = Module("SctpSendGen")
    src = strip_comments(read(SCTP))
    for c in ["MAX_SCTP_PACKET_SIZE", "SCTP_COMMON_HEADER_SIZE", "CHUNK_HEADER_SIZE", "DEFAULT_MAX_PAYLOAD_SIZE",
              "SSTHRESH_MIN", "CWND_INITIAL", "CWND_MIN_AFTER_RTO", "RETRANSMIT_BURST", "DUP_THRESH", "CT_DATA"]:
        m.gen.consts[c] = "usize"
    m.lines.append("From RV Require Import Gen.Consts.")
    U = {"usize": "usize"}

    # ---------------------------------------------------------------- create_data_chunk
    _, _, b = find_fn(src, "create_data_chunk", "SctpInner")
    g = _need(r"let\s+chunk_value_len\s*=\s*(\d+)\s*\+\s*data_len\s*;\s*let\s+chunk_len\s*=\s*(\d+)\s*\+\s*chunk_value_len\s*;"
              r"\s*let\s+padding\s*=\s*([^;]+);\s*let\s+total_len\s*=\s*chunk_len\s*\+\s*padding\s*;", b, "create_data_chunk sizes")
    m.raw("Definition DATA_VALUE_HDR : Z := %s." % g.group(1), "create_data_chunk: 12 + data_len", SCTP)
    m.raw("Definition DATA_CHUNK_HDR : Z := %s." % g.group(2), "create_data_chunk: 4 + chunk_value_len", SCTP)
    pad = _expr(m, g.group(3), {"chunk_len": ("n", "usize")})
    m.raw("Definition pad_of (n : Z) : Z := %s." % pad, "create_data_chunk: padding formula", SCTP)
    _seq(b, ["buf.put_u8(CT_DATA)", "buf.put_u8(flags)", "buf.put_u16(chunk_len as u16)", "buf.put_u32(tsn)",
             "buf.put_u16(channel_id)", "buf.put_u16(ssn)", "buf.put_u32(ppid)", "buf.put_slice(data)",
             "for _ in 0..padding", "buf.put_u8(0)"], "create_data_chunk field order")
    if len(re.findall(r"buf\.put_", b)) != 9:
        raise Untranslatable("create_data_chunk: expected exactly 9 put_* calls")
    m.raw("Definition DATA_FIELD_WIDTHS : list Z := [1; 1; 2; 4; 2; 2; 4].",
          "create_data_chunk: type,flags,len16,tsn32,sid16,ssn16,ppid32,data,padding", SCTP)

    # ---------------------------------------------------------------- send_data_raw
    _, _, b = find_fn(src, "send_data_raw", "SctpInner")
    _need(r"let\s+mut\s+max_payload_size\s*=\s*DEFAULT_MAX_PAYLOAD_SIZE\s*;", b, "send_data_raw default max payload")
    _need(r"max_payload_size\s*=\s*dc\.max_payload_size\.min\(DEFAULT_MAX_PAYLOAD_SIZE\)\s*;", b, "send_data_raw payload clamp")
    g = _need(r"let\s+flags_base\s*=\s*if\s+!ordered\s*\{\s*(0x[0-9a-fA-F]+|\d+)\s*\}\s*else\s*\{\s*(0x[0-9a-fA-F]+|\d+)\s*\}\s*;", b, "send_data_raw flags_base")
    if int(g.group(2), 0) != 0:
        raise Untranslatable("send_data_raw: ordered flags_base is not 0")
    m.raw("Definition FLAG_U : Z := %d." % int(g.group(1), 0), "send_data_raw: unordered flag", SCTP)
    g = _need(r"flags:\s*flags_base\s*\|\s*(0x[0-9a-fA-F]+|\d+)\s*,", b, "send_data_raw empty message flags")
    m.raw("Definition FLAG_BE : Z := %d." % int(g.group(1), 0), "send_data_raw: empty message B|E", SCTP)
    g = _need(r"if\s+offset\s*==\s*0\s*\{\s*flags\s*\|=\s*(0x[0-9a-fA-F]+|\d+)\s*;\s*\}\s*"
              r"if\s+offset\s*\+\s*chunk_payload_size\s*>=\s*total_len\s*\{\s*flags\s*\|=\s*(0x[0-9a-fA-F]+|\d+)\s*;\s*\}", b,
              "send_data_raw B/E flags")
    m.raw("Definition FLAG_B : Z := %d." % int(g.group(1), 0), "send_data_raw: B flag", SCTP)
    m.raw("Definition FLAG_E : Z := %d." % int(g.group(2), 0), "send_data_raw: E flag", SCTP)
    _need(r"let\s+chunk_payload_size\s*=\s*std::cmp::min\(remaining,\s*max_payload_size\)\s*;", b, "send_data_raw fragment size")
    _need(r"let\s+payload\s*=\s*data_bytes\.slice\(offset\.\.offset\s*\+\s*chunk_payload_size\)\s*;", b, "send_data_raw slice")
    _need(r"offset\s*\+=\s*chunk_payload_size\s*;", b, "send_data_raw offset advance")
    _need(r"dc\.next_ssn\.fetch_add\(1,", b, "send_data_raw ssn allocation")
    _need(r"let\s+is_dcep\s*=\s*ppid\s*==\s*DATA_CHANNEL_PPID_DCEP\s*;\s*let\s+mut\s+ordered\s*=\s*!is_dcep\s*;", b, "send_data_raw ordered default")
    _need(r"ordered\s*=\s*if\s+is_dcep\s*\{\s*false\s*\}\s*else\s*\{\s*dc\.ordered\s*\}\s*;", b, "send_data_raw ordered")

    # ---------------------------------------------------------------- transmit
    _, _, b = find_fn(src, "transmit", "SctpInner")
    g = _need(r"let\s+burst_limit\s*=\s*if\s+self\.max_burst_packets\s*>\s*0\s*\{\s*self\.max_burst_packets\s*\*\s*MAX_SCTP_PACKET_SIZE\s*\}"
              r"\s*else\s*\{\s*(\d+)\s*\*\s*MAX_SCTP_PACKET_SIZE\s*\}\s*;", b, "transmit burst_limit")
    m.raw("Definition DEFAULT_BURST_PACKETS : Z := %s." % g.group(1), "transmit: default burst", SCTP)
    g = _need(r"let\s+burst_constrained_cwnd\s*=\s*([^;]+);\s*let\s+effective_window\s*=\s*([^;]+);", b, "transmit effective window")
    env = {"flight_val": ("flight", "usize"), "burst_limit": ("burst_limit", "usize"), "cwnd_val": ("cwnd", "usize"),
           "rwnd_val": ("rwnd", "usize")}
    e1 = _expr(m, g.group(1), env)
    env2 = dict(env, burst_constrained_cwnd=("bcw", "usize"))
    e2 = _expr(m, g.group(2), env2)
    m.raw("Definition effective_window (flight burst_limit cwnd rwnd : Z) : Z :=\n  let bcw := %s in %s." % (e1, e2),
          "transmit: effective window", SCTP)
    g = _need(r"let\s+available\s*=\s*effective_window\.saturating_sub\(self\.flight_size\.load\([^)]*\)\)\s*;", b, "transmit available")
    g = _need(r"while\s+budget\s*>\s*0\s*&&\s*batch\.len\(\)\s*<\s*(\d+)\s*\{", b, "transmit drain loop guard")
    m.raw("Definition TRANSMIT_BATCH_CAP : Z := %s." % g.group(1), "transmit: batch cap", SCTP)
    g = _need(r"let\s+chunk_wire_size\s*=\s*CHUNK_HEADER_SIZE\s*\+\s*(\d+)\s*\+\s*chunk_info\.payload\.len\(\)\s*;\s*"
              r"let\s+padded\s*=\s*chunk_wire_size\s*\+\s*([^;]+);", b, "transmit chunk charge")
    m.raw("Definition TRANSMIT_DATA_HDR : Z := %s." % g.group(1), "transmit: DATA value header charged to the budget", SCTP)
    padt = _expr(m, g.group(2), {"chunk_wire_size": ("n", "usize")})
    m.raw("Definition transmit_pad_of (n : Z) : Z := %s." % padt, "transmit: padding in the budget charge", SCTP)
    _need(r"budget\s*=\s*budget\.saturating_sub\(padded\)\s*;", b, "transmit budget charge")
    g = _need(r"window_limited\s*=\s*!outbound\.is_empty\(\)\s*\|\|\s*batch\.len\(\)\s*>=\s*(\d+)\s*;", b, "transmit window_limited")
    if g.group(1) != re.search(r"batch\.len\(\)\s*<\s*(\d+)", b).group(1):
        raise Untranslatable("transmit: window_limited cap differs from the loop cap")
    _need(r"let\s+tsn\s*=\s*self\.next_tsn\.fetch_add\(1,", b, "transmit TSN allocation")
    _seq(b, ["self.sack_needed.swap(false", "create_sack_chunk()", "for record in sent.values_mut()", "if record.needs_retransmit",
             "chunks_to_send.push(record.payload.clone())", "outbound.pop_front()", "self.next_tsn.fetch_add(1",
             "sent.insert(tsn, record)", "chunks_to_send.push(wire_chunk)", "self.transmit_chunks(chunks_to_send)"],
         "transmit phase order")

    # ---------------------------------------------------------------- batching / packet
    _, _, b = find_fn(src, "transmit_chunks_with_tag", "SctpInner")
    _need(r"let\s+mut\s+current_len\s*=\s*SCTP_COMMON_HEADER_SIZE\s*;", b, "batcher initial length")
    _need(r"if\s+!current_batch\.is_empty\(\)\s*&&\s*current_len\s*\+\s*chunk\.len\(\)\s*>\s*MAX_SCTP_PACKET_SIZE\s*\{", b, "batcher split test")
    _seq(b, ["if chunks.is_empty()", "for chunk in chunks", "self.send_packet_with_tag(current_batch, tag)", "current_batch = Vec::new()",
             "current_len = SCTP_COMMON_HEADER_SIZE", "current_len += chunk.len()", "current_batch.push(chunk)",
             "if !current_batch.is_empty()", "self.send_packet_with_tag(current_batch, tag)"], "batcher statement order")
    _, _, b = find_fn(src, "send_packet_with_tag", "SctpInner")
    _seq(b, ["buf.put_u16(self.local_port)", "buf.put_u16(self.remote_port)", "buf.put_u32(tag)", "buf.put_u32(0)",
             "for c in chunks", "buf.put_slice(&c)", "let checksum = sctp_crc32c(&buf)", "checksum.to_le_bytes()",
             "buf[8] = checksum_bytes[0]", "buf[9] = checksum_bytes[1]", "buf[10] = checksum_bytes[2]", "buf[11] = checksum_bytes[3]",
             "self.outgoing_packet_tx.send(buf.freeze())"], "send_packet_with_tag layout")
    if len(re.findall(r"buf\.put_", b)) != 5:
        raise Untranslatable("send_packet_with_tag: expected exactly 5 put_* calls")
    m.raw("Definition PKT_HDR_WIDTHS : list Z := [2; 2; 4; 4].\nDefinition PKT_CRC_OFFSET : Z := 8.",
          "send_packet_with_tag: sport16,dport16,tag32,crc32(le) at 8..12", SCTP)
    _, _, b = find_fn(src, "handle_packet", "SctpInner")
    _seq(b, ["if packet.len() < SCTP_COMMON_HEADER_SIZE", "buf.get_u16()", "buf.get_u16()", "buf.get_u32()", "buf.get_u32_le()",
             "let zeroed_checksum: [u8; 4] = [0; 4]", "sctp_crc32c(&packet[..8])", "sctp_crc32c_append(crc, &zeroed_checksum)",
             "sctp_crc32c_append(crc, &packet[12..])", "if calculated != received_checksum"], "handle_packet checksum verification")
    _, _, b = find_fn(src, "sctp_crc32c")
    _need(r"\{\s*sctp_crc32c_append\(0,\s*data\)\s*\}", b, "sctp_crc32c = append(0, data)")

    # ---------------------------------------------------------------- handle_timeout (T3)
    _, _, b = find_fn(src, "handle_timeout", "SctpInner")
    g = _need(r"let\s+new_ssthresh\s*=\s*([^;]+);\s*self\.ssthresh\.store\(new_ssthresh,[^;]*;\s*self\.cwnd_tx\s*\.store\(([^,]+),", b, "T3 window collapse")
    m.raw("Definition t3_ssthresh (cwnd : Z) : Z := %s." % _expr(m, g.group(1), {"cwnd": ("cwnd", "usize")}), "handle_timeout: new ssthresh", SCTP)
    m.raw("Definition t3_cwnd (new_ssthresh : Z) : Z := %s." % _expr(m, g.group(2), {"new_ssthresh": ("new_ssthresh", "usize")}),
          "handle_timeout: new cwnd", SCTP)
    _need(r"if\s+retransmit_count\s*<\s*RETRANSMIT_BURST\s*\{\s*record\.needs_retransmit\s*=\s*true\s*;\s*record\.transmit_count\s*\+=\s*1\s*;", b, "T3 burst guard")
    _need(r"if\s+!record\.acked\s*&&\s*!record\.abandoned\s*\{\s*if\s+record\.in_flight\s*\{\s*record\.in_flight\s*=\s*false\s*;", b, "T3 marking loop")
    _seq(b, ["self.flight_size.store(0", "self.partial_bytes_acked.store(0", "self.fast_recovery_active.store(false",
             "self.fast_recovery_exit_tsn.store(0", "self.fast_recovery_transmit.store(false"], "T3 resets")

    # ---------------------------------------------------------------- handle_sack
    _, _, b = find_fn(src, "handle_sack", "SctpInner")
    g = _need(r"if\s+ssthresh\s*<=\s*SSTHRESH_MIN\s*&&\s*outcome\.bytes_acked_by_cum_tsn\s*>\s*0\s*\{\s*let\s+cwnd\s*=[^;]+;\s*"
              r"if\s+cwnd\s*>=\s*([^{]+)\{\s*let\s+new_ssthresh\s*=\s*([^;]+);", b, "ssthresh auto-raise")
    envr = {"cwnd": ("cwnd", "usize"), "ssthresh": ("ssthresh", "usize"), "self.max_cwnd": ("max_cwnd", "usize")}
    m.raw("Definition raise_threshold (ssthresh : Z) : Z := %s." % _expr(m, g.group(1).strip(), envr), "handle_sack: raise condition rhs", SCTP)
    m.raw("Definition raise_ssthresh (cwnd max_cwnd : Z) : Z := %s." % _expr(m, g.group(2), envr), "handle_sack: raised ssthresh", SCTP)
    g = _need(r"let\s+near_floor\s*=\s*cwnd_tx\s*<=\s*([^;]+);\s*let\s+new_ssthresh_tx\s*=\s*if\s+near_floor\s*\{\s*([^}]+)\}\s*else\s*\{\s*([^}]+)\}\s*;"
              r"\s*let\s+new_ssthresh_rx\s*=\s*if\s+near_floor\s*\{\s*([^}]+)\}\s*else\s*\{\s*([^}]+)\}\s*;"
              r"\s*let\s+new_ssthresh\s*=\s*new_ssthresh_tx\.min\(new_ssthresh_rx\)\s*;", b, "fast recovery entry")
    envf = {"cwnd_tx": ("c", "usize"), "cwnd_rx": ("c", "usize")}
    if _expr(m, g.group(2).strip(), envf) != _expr(m, g.group(4).strip(), envf) or _expr(m, g.group(3).strip(), envf) != _expr(m, g.group(5).strip(), envf):
        raise Untranslatable("fast recovery: tx and rx formulas differ")
    m.raw("Definition fr_near_floor_limit : Z := %s." % _expr(m, g.group(1).strip(), {}), "handle_sack: near-floor limit", SCTP)
    m.raw("Definition fr_ssthresh_gentle (c : Z) : Z := %s." % _expr(m, g.group(2).strip(), envf), "handle_sack: beta 0.7 branch", SCTP)
    m.raw("Definition fr_ssthresh_std (c : Z) : Z := %s." % _expr(m, g.group(3).strip(), envf), "handle_sack: beta 0.5 branch", SCTP)
    g = _need(r"const\s+FAST_RECOVERY_REENTRY_COOLDOWN\s*:\s*Duration\s*=\s*Duration::from_millis\((\d+)\)\s*;", src, "FAST_RECOVERY_REENTRY_COOLDOWN")
    m.raw("Definition FAST_RECOVERY_REENTRY_COOLDOWN_MS : Z := %s." % g.group(1), "const FAST_RECOVERY_REENTRY_COOLDOWN", SCTP)
    # every Gap Ack Block of the SACK is parsed: the loop runs over the count field of the header as it
    # is, bounded only by the bytes present (a clamp on the number of blocks would leave chunks that the
    # peer acknowledged in the sent queue)
    _need(r"let\s+cumulative_tsn_ack\s*=\s*buf\.get_u32\(\)\s*;\s*let\s+a_rwnd\s*=\s*buf\.get_u32\(\)\s*;\s*"
          r"let\s+num_gap_ack_blocks\s*=\s*buf\.get_u16\(\)\s*;\s*let\s+_num_duplicate_tsns\s*=\s*buf\.get_u16\(\)\s*;", b, "handle_sack SACK header fields")
    _need(r"let\s+mut\s+gap_blocks\s*=\s*Vec::new\(\)\s*;\s*for\s+_\s+in\s+0\.\.num_gap_ack_blocks\s*\{\s*if\s+buf\.remaining\(\)\s*<\s*4\s*\{\s*break\s*;\s*\}\s*"
          r"gap_blocks\.push\(\(buf\.get_u16\(\),\s*buf\.get_u16\(\)\)\)\s*;\s*\}", b, "handle_sack gap block loop (all blocks parsed, no clamp)")
    if len(re.findall(r"num_gap_ack_blocks", b)) != 2:
        raise Untranslatable("handle_sack: num_gap_ack_blocks is used beyond the header read and the parse loop (clamped / rebound?)")
    _need(r"apply_sack_to_sent_queue\(\s*&mut\s+sent_queue,\s*cumulative_tsn_ack,\s*&gap_blocks,\s*now,\s*count_missing_reports,\s*self\.max_tsn_retransmits,?\s*\)", b,
          "handle_sack passes all parsed blocks to apply_sack_to_sent_queue")
    m.raw("Definition SACK_GAP_BLOCKS_PARSED_UNBOUNDED : bool := true.", "handle_sack: every Gap Ack Block present is parsed and applied", SCTP)
    g = _need(r"let\s+mut\s+sig\s*=\s*\(cumulative_tsn_ack\s+as\s+u64\)\s*<<\s*32\s*;.*?let\s+block\s*=\s*\(\(\*start\s+as\s+u64\)\s*<<\s*16\)\s*\|\s*\(\*end\s+as\s+u64\)\s*;"
              r"\s*sig\s*=\s*sig\s*\.wrapping_mul\((0x[0-9a-fA-F]+)\)\s*\.wrapping_add\(block\s*\^\s*\(sig\s*>>\s*32\)\)\s*;", b, "SACK signature")
    m.raw("Definition SACK_SIG_MUL : Z := %d." % int(g.group(1), 16), "handle_sack: signature multiplier", SCTP)

    # ---------------------------------------------------------------- apply_sack_to_sent_queue
    b = _find_free_fn(src, "apply_sack_to_sent_queue", "SackOutcome")
    g = _need(r"const\s+MIN_FAST_RETRANSMIT_COOLDOWN_MS\s*:\s*u64\s*=\s*(\d+)\s*;", b, "fast retransmit cooldown")
    m.raw("Definition MIN_FAST_RETRANSMIT_COOLDOWN_MS : Z := %s." % g.group(1), "apply_sack: MIN_FAST_RETRANSMIT_COOLDOWN_MS", SCTP)
    _need(r"\.filter\(\|&&tsn\|\s*\(tsn\.wrapping_sub\(cumulative_tsn_ack\)\s+as\s+i32\)\s*<=\s*0\)", b, "apply_sack cumulative removal test")
    g = _need(r"let\s+oldest_tsn\s*=\s*match\s*\(sent_queue\.keys\(\)\.next\(\),\s*sent_queue\.keys\(\)\.next_back\(\)\)\s*\{\s*"
              r"\(Some\(&first\),\s*Some\(&last\)\)\s*if\s*\(last\.wrapping_sub\(first\)\s+as\s+i32\)\s*<\s*0\s*=>\s*sent_queue\s*"
              r"\.range\((0x[0-9a-fA-F_]+)u32\.\.\)\s*\.next\(\)\s*\.map\(\|\(&tsn,\s*_\)\|\s*tsn\)\s*\.or\(Some\(first\)\),\s*"
              r"\(Some\(&first\),\s*_\)\s*=>\s*Some\(first\),\s*_\s*=>\s*None,\s*\};\s*"
              r"if\s+let\s+Some\(lowest_tsn\)\s*=\s*oldest_tsn\s*&&\s*\(cumulative_tsn_ack\.wrapping_sub\(lowest_tsn\.wrapping_sub\(1\)\)\s+as\s+i32\)\s*<\s*0",
              b, "apply_sack late-SACK filter (oldest TSN in serial order)")
    m.raw("Definition OLDEST_UPPER_HALF : Z := %d." % int(g.group(1).replace("_", ""), 16), "apply_sack: start of the upper half of the TSN space", SCTP)
    _need(r"if\s*\(max_reported\.wrapping_sub\(lowest_tsn\)\s+as\s+i32\)\s*<\s*0\s*\{\s*return\s+SackOutcome::default\(\);", b, "apply_sack late-SACK second test")
    _need(r"if\s+record\.missing_reports\s*>=\s*DUP_THRESH\s*&&\s*!record\.abandoned\s*&&\s*can_fast_retransmit\s*\{", b, "apply_sack fast retransmit test")
    _need(r"record\.payload\s*=\s*Bytes::new\(\)\s*;", b, "apply_sack gap-ack payload drop")
    _need(r"for\s*\(start,\s*end\)\s+in\s+gap_blocks\s*\{\s*let\s+s\s*=\s*cumulative_tsn_ack\.wrapping_add\(\*start\s+as\s+u32\)\s*;", b, "apply_sack gap block loop")
    if len(re.findall(r"for\s*\(_?start,\s*end\)\s+in\s+gap_blocks\s*\{", b)) != 3:
        raise Untranslatable("apply_sack: expected three loops over all gap_blocks (two max_reported scans, one marking loop)")

    # ---------------------------------------------------------------- TLP
    _, _, b = find_fn(src, "maybe_send_tlp_probe", "SctpInner")
    _seq(b, ["if self.tlp_probe_sent.load(", "return false", ".rev()", ".find(|(_, r)| !r.acked && !r.abandoned)",
             "record.needs_retransmit = true", "record.transmit_count.saturating_add(1)", "if !record.in_flight",
             "self.tlp_probe_sent.store(true"], "maybe_send_tlp_probe shape")
    return m


MODULES = {"SctpSendGen": gen_sctp_send}
