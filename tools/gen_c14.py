"""rs2v plugin for C14: Gen/SendSites.v  (call-site census + gate decision tables + statement order)

Regenerated from /repo/src (every *.rs file; `#[cfg(test)]` items, `#[cfg(test)] mod x;` files and
`*tests.rs` files removed) on every run:

1. `send_sites` -- every call that can put bytes on a media socket through an `IceConn`:
   `.send(` / `.try_send(` / `.send_rtcp(` / `.send_dtls_record_batch(` whose receiver resolves to an
   `IceConn` (a struct field whose declared type mentions IceConn, a parameter / `let` binding whose type
   or initialiser mentions IceConn / `ice_conn()` / another IceConn-typed name, or a call of a function
   whose return type mentions IceConn such as `ice_conn()`), as
   (file, "Impl::function", callee, receiver text, number of such calls in that function).
2. `socket_sites` -- every raw socket write (`.send_to(` / `.try_send_to(` / `.write_all(` / `.try_write(` / `tcp_write_all(`) with file and
   enclosing function (the layer below IceConn: IceConn's own senders and the ICE/STUN/TURN agent).
3. `ice_conn_uses` -- every `ice_conn()` call with what is done with the result (method name, `bind:<var>`
   or `expr`), so that a new way of getting at the raw connection shows up even if it is not (yet) a send.
4. `ctor_sites` -- every `RtpTransport::new(` / `new_with_ssrc_change(` outside rtp.rs with the text of the
   `srtp_required` argument, and `mode_guards`: for every call of a function that creates / configures an
   unprotected (`false`) media transport, whether the call is dominated by `transport_mode == TransportMode::Rtp`.
5. gate decision tables `gate_<fn> : bool (*session present*) -> bool (*required*) -> gact`, read off the
   `srtp_session` / `srtp_required` branch structure of the five senders and the two receive branches, and
   `*_stages`: the textual order of gate / observer / bridge / socket statements in each function.

Anything that no longer has a recognisable shape raises Untranslatable (never guessed).
"""
import os
import re
import sys

_main = sys.modules.get("__main__")
if _main is not None and hasattr(_main, "Untranslatable") and hasattr(_main, "Module"):
    rs2v = _main
else:
    import rs2v

Module = rs2v.Module
Untranslatable = rs2v.Untranslatable

RTP = "src/transports/rtp.rs"
PC = "src/peer_connection.rs"


def norm(s):
    return re.sub(r"\s+", " ", s).strip()


ICE_RE = re.compile(r"\bIceConn\b")


def has_ice(t):
    return bool(ICE_RE.search(t))


def nostr(s):
    """normalise whitespace and empty every string literal (format strings contain braces)"""
    return norm(re.sub(r'"(?:[^"\\]|\\.)*"', '""', s))


# ----------------------------------------------------------------------------- source preparation
def blank_strings(src):
    """replace the contents of string / char literals by spaces (positions preserved)"""
    out = list(src)
    i, n = 0, len(src)
    while i < n:
        c = src[i]
        if c == '"':
            j = i + 1
            while j < n and src[j] != '"':
                j += 2 if src[j] == "\\" else 1
            for k in range(i + 1, min(j, n)):
                if out[k] != "\n":
                    out[k] = " "
            i = j + 1
        elif c == "'":
            # char literal ('x', '\n', '{') vs lifetime ('a)
            m = re.match(r"'(\\.[^']*|[^'\\])'", src[i:i + 12])
            if m:
                for k in range(i + 1, i + m.end() - 1):
                    out[k] = " "
                i += m.end()
            else:
                i += 1
        else:
            i += 1
    return "".join(out)


def strip_comments_keep_pos(src):
    def blank(m):
        return re.sub(r"[^\n]", " ", m.group(0))
    # strings first so that `//` inside a string is not taken for a comment
    s = blank_strings(src)
    s = re.sub(r"/\*.*?\*/", blank, s, flags=re.S)
    s = re.sub(r"//[^\n]*", blank, s)
    return s


def match_brace(s, start):
    depth = 0
    for i in range(start, len(s)):
        if s[i] == "{":
            depth += 1
        elif s[i] == "}":
            depth -= 1
            if depth == 0:
                return i + 1
    raise Untranslatable("unbalanced braces")


TEST_ATTR = re.compile(r"#\[cfg\((?:test|all\(test[^\]]*|any\(test[^\]]*)\)\]")


def strip_test_items(s, test_mod_files):
    """blank every item that follows a #[cfg(test)] attribute; record `mod x;` declarations"""
    out = s
    pos = 0
    while True:
        m = TEST_ATTR.search(out, pos)
        if not m:
            break
        i = m.end()
        # further attributes
        while True:
            mm = re.match(r"\s*#\[[^\]]*\]", out[i:])
            if not mm:
                break
            i += mm.end()
        semi = out.find(";", i)
        brace = out.find("{", i)
        if brace == -1 or (semi != -1 and semi < brace):
            end = semi + 1 if semi != -1 else len(out)
            mm = re.match(r"\s*(?:pub(?:\([a-z]+\))?\s+)?mod\s+([A-Za-z0-9_]+)\s*;", out[i:end])
            if mm:
                test_mod_files.append(mm.group(1))
        else:
            end = match_brace(out, brace)
        out = out[:m.start()] + re.sub(r"[^\n]", " ", out[m.start():end]) + out[end:]
        pos = end
    return out


def load_sources():
    root = os.path.join(rs2v.REPO, "src")
    files = {}
    for d, _, fs in os.walk(root):
        for f in sorted(fs):
            if f.endswith(".rs"):
                p = os.path.join(d, f)
                files[os.path.relpath(p, rs2v.REPO)] = open(p).read()
    if RTP not in files or PC not in files:
        raise Untranslatable("expected %s and %s" % (RTP, PC))
    out = {}
    excluded = set()
    for rel, text in files.items():
        if re.search(r"(^|/|_)tests?\.rs$", rel):
            excluded.add(rel)
    for rel, text in sorted(files.items()):
        if rel in excluded:
            continue
        mods = []
        s = strip_test_items(strip_comments_keep_pos(text), mods)
        out[rel] = s
        for mname in mods:
            base = os.path.dirname(rel)
            for cand in (os.path.join(base, mname + ".rs"), os.path.join(base, mname, "mod.rs")):
                excluded.add(cand)
    for e in excluded:
        out.pop(e, None)
    return out


# ----------------------------------------------------------------------------- scopes
FN_RE = re.compile(r"\bfn\s+([A-Za-z0-9_]+)\s*(?:<[^>{;(]*>)?\s*\(")
IMPL_RE = re.compile(r"(?m)^\s*(?:unsafe\s+)?impl(?:<[^{;]*?>)?\s+([^{;]+?)\s*\{")


class Scopes:
    def __init__(self, s):
        self.s = s
        self.fns = []      # (start, end, name, header_text, body_start)
        self.impls = []    # (start, end, name)
        for m in FN_RE.finditer(s):
            # find the body: first '{' or ';' after the parameter list at paren depth 0
            i = m.end() - 1
            depth = 0
            j = i
            while j < len(s):
                c = s[j]
                if c == "(":
                    depth += 1
                elif c == ")":
                    depth -= 1
                    if depth == 0:
                        break
                j += 1
            k = j
            while k < len(s) and s[k] not in "{;":
                k += 1
            if k >= len(s) or s[k] == ";":
                continue
            end = match_brace(s, k)
            self.fns.append((m.start(), end, m.group(1), s[m.start():k], k))
        for m in IMPL_RE.finditer(s):
            b = m.end() - 1
            name = norm(m.group(1))
            if ")" in name or "->" in name or "=" in name.split(" for ")[-1]:
                continue                      # `impl Trait` in a return type that happens to start a line
            self.impls.append((m.start(), match_brace(s, b), name))

    def fn_at(self, pos):
        best = None
        for f in self.fns:
            if f[4] <= pos < f[1] and (best is None or f[0] > best[0]):
                best = f
        return best

    def outer_fn_at(self, pos):
        best = None
        for f in self.fns:
            if f[4] <= pos < f[1] and (best is None or f[0] < best[0]):
                best = f
        return best

    def impl_at(self, pos):
        best = None
        for im in self.impls:
            if im[0] <= pos < im[1] and (best is None or im[0] > best[0]):
                best = im
        return best

    def label(self, pos):
        f = self.fn_at(pos)
        im = self.impl_at(pos)
        fn = f[2] if f else "<module>"
        if f:
            o = self.outer_fn_at(pos)
            if o and o[2] != f[2]:
                fn = o[2] + "/" + f[2]
        return (im[2] + "::" if im else "") + fn


# ----------------------------------------------------------------------------- receiver extraction / typing
def receiver_before(s, dot):
    """text of the receiver expression that ends just before s[dot] == '.'"""
    i = dot
    while True:
        j = i - 1
        while j >= 0 and s[j].isspace():
            j -= 1
        if j < 0:
            break
        if s[j] == "?":
            i = j
            continue
        if s[j] in ")]":
            close, opn = s[j], "(" if s[j] == ")" else "["
            depth = 0
            k = j
            while k >= 0:
                if s[k] == close:
                    depth += 1
                elif s[k] == opn:
                    depth -= 1
                    if depth == 0:
                        break
                k -= 1
            if k < 0:
                break
            i = k
            # identifier (method / fn name, possibly with turbofish) before the parenthesis
            j = i - 1
            while j >= 0 and s[j].isspace():
                j -= 1
            if j >= 0 and (s[j].isalnum() or s[j] == "_"):
                while j >= 0 and (s[j].isalnum() or s[j] == "_"):
                    j -= 1
                i = j + 1
            else:
                # parenthesised expression: stop here
                break
        elif s[j].isalnum() or s[j] == "_":
            while j >= 0 and (s[j].isalnum() or s[j] == "_"):
                j -= 1
            i = j + 1
        else:
            break
        # continue through '.' or '::'
        j = i - 1
        while j >= 0 and s[j].isspace():
            j -= 1
        if j >= 0 and s[j] == ".":
            i = j
            continue
        if j >= 1 and s[j] == ":" and s[j - 1] == ":":
            i = j - 1
            continue
        break
    txt = re.sub(r"\s+", "", s[i:dot])
    return txt.lstrip(".:")


ADAPTERS = {"clone()", "as_ref()", "as_mut()", "unwrap()", "lock()", "read()", "write()", "borrow()",
            "upgrade()", "as_deref()", "to_owned()", "deref()", "await"}


def split_top(expr):
    parts, depth, cur = [], 0, ""
    for c in expr:
        if c in "([":
            depth += 1
        elif c in ")]":
            depth -= 1
        if c == "." and depth == 0:
            parts.append(cur)
            cur = ""
        else:
            cur += c
    parts.append(cur)
    return [p.replace("?", "") for p in parts if p != ""]


def struct_fields(s):
    """field name -> list of declared types, over every struct of the file"""
    out = {}
    for m in re.finditer(r"\bstruct\s+[A-Za-z0-9_]+(?:<[^{;]*>)?\s*\{", s):
        end = match_brace(s, m.end() - 1)
        body = re.sub(r"#\[[^\]]*\]", "", s[m.end():end - 1])
        for mm in re.finditer(r"(?:pub(?:\([a-z]+\))?\s+)?([a-z_][A-Za-z0-9_]*)\s*:\s*([^,\n]+(?:\n\s+[^,\n:]+)*)", body):
            out.setdefault(mm.group(1), []).append(norm(mm.group(2)))
    return out


def iceconn_returning_fns(sources):
    names = set()
    for rel, s in sources.items():
        for m in re.finditer(r"\bfn\s+([A-Za-z0-9_]+)\s*(?:<[^>{;(]*>)?\s*\([^{;]*?\)\s*->\s*([^{;]+?)\s*(?:where[^{]*)?\{", s):
            if has_ice(m.group(2)):
                names.add(m.group(1))
    return names


def typed_names(fn_text, header, fields_ice, ret_fns):
    """local names (params, let / if-let / closure bindings) of one function that hold an IceConn"""
    names = set()
    for m in re.finditer(r"([a-z_][A-Za-z0-9_]*)\s*:\s*([^,()]*(?:\([^()]*\))?[^,()]*)", header):
        if has_ice(m.group(2)):
            names.add(m.group(1))
    binds = []
    for m in re.finditer(r"\blet\s+(?:mut\s+)?(?:Some\(|Ok\()?\s*(?:mut\s+)?([a-z_][A-Za-z0-9_]*)\)?\s*(?::\s*([^=;]+?))?\s*=\s*([^;]*?);", fn_text, re.S):
        binds.append((m.group(1), m.group(2) or "", m.group(3)))
    for m in re.finditer(r"\bif\s+let\s+(?:Some|Ok)\(\s*(?:mut\s+)?([a-z_][A-Za-z0-9_]*)\s*\)\s*=\s*([^{]*?)\{", fn_text, re.S):
        binds.append((m.group(1), "", m.group(2)))
    changed = True
    while changed:
        changed = False
        for name, ty, init in binds:
            if name in names:
                continue
            ini = re.sub(r"\s+", "", init)
            hit = has_ice(ty) or has_ice(init)
            if not hit:
                for f in ret_fns:
                    if re.search(r"\b%s\(\)" % re.escape(f), ini):
                        hit = True
            if not hit:
                # initialiser is (a clone of) an IceConn-typed name or self field
                parts = split_top(ini.lstrip("&*"))
                while parts and parts[-1] in ADAPTERS:
                    parts.pop()
                if len(parts) == 1 and parts[0] in names:
                    hit = True
                if len(parts) >= 2 and parts[0] == "self" and parts[-1] in fields_ice and len(parts) <= 3:
                    hit = True
            if hit:
                names.add(name)
                changed = True
    return names


def is_iceconn_receiver(recv, local_names, fields_ice, ret_fns):
    parts = split_top(recv.lstrip("&*("))
    while parts and parts[-1] in ADAPTERS:
        parts.pop()
    if not parts:
        return False
    last = parts[-1]
    m = re.match(r"^([A-Za-z0-9_]+)\(\)$", last)
    if m and m.group(1) in ret_fns:
        return True
    if "IceConn::" in recv:
        return True
    if len(parts) == 1:
        return last in local_names
    # field access: the last component names a field whose declared type mentions IceConn
    if re.match(r"^[a-z_][A-Za-z0-9_]*$", last) and last in fields_ice:
        return True
    return False


SEND_METHODS = ("send", "try_send", "send_rtcp", "send_dtls_record_batch")
CALLEE = {"send": "CSend", "try_send": "CTrySend", "send_rtcp": "CSendRtcp", "send_dtls_record_batch": "CSendBatch"}


def coq_str(s):
    return '"' + s.replace('"', "'") + '"'


def census():
    sources = load_sources()
    ret_fns = iceconn_returning_fns(sources)
    if "ice_conn" not in ret_fns:
        raise Untranslatable("RtpTransport::ice_conn() -> Arc<IceConn> not found")
    send_sites = {}
    socket_sites = {}
    uses = {}
    ctor = []
    callers = {}
    carriers = []          # functions that receive or return an IceConn
    holders = []           # struct fields that hold an IceConn
    ice_impls = []         # impl <Trait> for IceConn
    recv_impls = []        # impl PacketReceiver for <T>
    macros = []            # macro_rules! that could hide a sender
    for rel, s in sorted(sources.items()):
        sc = Scopes(s)
        send_pos, sock_pos = [], []
        fields = struct_fields(s)
        fields_ice = {f for f, tys in fields.items() if any(has_ice(t) for t in tys)}
        cache = {}
        for m in re.finditer(r"\.\s*(send|try_send|send_rtcp|send_dtls_record_batch)\s*\(", s):
            recv = receiver_before(s, m.start())
            f = sc.outer_fn_at(m.start())
            if f is None:
                continue
            if f[0] not in cache:
                cache[f[0]] = typed_names(s[f[4]:f[1]], f[3], fields_ice, ret_fns)
            im_here = sc.impl_at(m.start())
            self_is_ice = recv == "self" and im_here is not None and im_here[2].split(" for ")[-1].strip() == "IceConn"
            if self_is_ice or is_iceconn_receiver(recv, cache[f[0]], fields_ice, ret_fns):
                key = (rel, sc.label(m.start()), CALLEE[m.group(1)], recv)
                send_sites[key] = send_sites.get(key, 0) + 1
                send_pos.append(m.start())
            elif m.group(1) == "send_rtcp":
                key = (rel, sc.label(m.start()), "send_rtcp")
                callers[key] = callers.get(key, 0) + 1
        for m in re.finditer(r"\.\s*(send_rtp|send_rtcp_sync)\s*\(", s):
            if sc.outer_fn_at(m.start()) is None:
                continue
            key = (rel, sc.label(m.start()), m.group(1))
            callers[key] = callers.get(key, 0) + 1
        for m in re.finditer(r"(?:\.\s*(send_to|try_send_to|write_all|try_write|poll_send_to|send_vectored)|\b(tcp_write_all))\s*\(", s):
            # skip the definitions themselves (`fn send_to(`, `fn tcp_write_all(`)
            if re.search(r"\bfn\s+$", s[max(0, m.start() - 8):m.start() + (1 if m.group(1) else 0)].replace(".", " ")):
                continue
            name = m.group(1) or m.group(2)
            key = (rel, sc.label(m.start()), name)
            socket_sites[key] = socket_sites.get(key, 0) + 1
            sock_pos.append(m.start())
        for m in re.finditer(r"\b(%s)\(\)" % "|".join(sorted(re.escape(x) for x in ret_fns)), s):
            if re.search(r"\bfn\s+$", s[max(0, m.start() - 6):m.start()]):
                continue
            rest = s[m.end():m.end() + 80]
            mm = re.match(r"\s*\.\s*([A-Za-z0-9_]+)", rest)
            if mm:
                use = mm.group(1)
            else:
                # `let x = <...>.ice_conn();`
                line_start = s.rfind(";", 0, m.start())
                line_start = max(line_start, s.rfind("{", 0, m.start()))
                stmt = s[line_start + 1:m.end()]
                bm = re.search(r"\blet\s+(?:mut\s+)?([a-z_][A-Za-z0-9_]*)\s*(?::[^=]+)?=\s*[^;]*$", stmt, re.S)
                if bm and re.match(r"\s*;", rest):
                    use = "bind:" + bm.group(1)
                else:
                    use = "expr"
            key = (rel, sc.label(m.start()), m.group(1), use)
            uses[key] = uses.get(key, 0) + 1
        # ---- who can carry an IceConn around: signatures, struct fields, trait impls, macros
        for f in sc.fns:
            hdr = f[3]
            par_end = hdr.rfind(")")
            arrow = hdr.find("->", par_end if par_end >= 0 else 0)
            params = hdr[:arrow] if arrow >= 0 else hdr
            ret = hdr[arrow:] if arrow >= 0 else ""
            kind = ("param" if has_ice(params) else "") + ("+" if has_ice(params) and has_ice(ret) else "") + ("ret" if has_ice(ret) else "")
            if kind:
                carriers.append((rel, sc.label(f[4]), kind))
        for fld, tys in sorted(fields.items()):
            for t in tys:
                if has_ice(t):
                    holders.append((rel, fld, norm(t)))
        for im in sc.impls:
            mm = re.match(r"^(.*?)\s+for\s+(.*)$", im[2])
            if not mm:
                continue
            trait, ty = norm(mm.group(1)), norm(mm.group(2))
            inside = lambda ps: sum(1 for p_ in ps if im[0] <= p_ < im[1])
            meths = sorted(f[2] for f in sc.fns if im[0] <= f[0] < im[1] and sc.outer_fn_at(f[4]) == f)
            if ty == "IceConn":
                ice_impls.append((rel, trait, " ".join(meths), inside(send_pos) + inside(sock_pos)))
            if trait == "PacketReceiver":
                recv_impls.append((rel, ty, inside(send_pos), inside(sock_pos)))
        for m in re.finditer(r"\bmacro_rules!\s*([A-Za-z0-9_]+)\s*\{", s):
            body = s[m.end() - 1:match_brace(s, m.end() - 1)]
            if re.search(r"\.\s*(send|try_send|send_rtcp|send_to|try_send_to|send_dtls_record_batch|write_all)\s*\(|\bIceConn\b|ice_conn", body):
                macros.append((rel, m.group(1)))
        if rel != RTP:
            for m in re.finditer(r"\bRtpTransport::(new|new_with_ssrc_change)\s*\(", s):
                close = matching_paren(s, m.end() - 1)
                args = split_args(s[m.end():close - 1])
                if len(args) < 2:
                    raise Untranslatable("%s: RtpTransport::%s call with %d arguments" % (rel, m.group(1), len(args)))
                ctor.append((rel, sc.label(m.start()), norm(args[1])))
    return sources, send_sites, socket_sites, uses, ctor, callers, (carriers, holders, ice_impls, recv_impls, macros)


def matching_paren(s, start):
    depth = 0
    for i in range(start, len(s)):
        if s[i] == "(":
            depth += 1
        elif s[i] == ")":
            depth -= 1
            if depth == 0:
                return i + 1
    raise Untranslatable("unbalanced parentheses")


def split_args(a):
    out, depth, cur = [], 0, ""
    for c in a:
        if c in "([{<":
            depth += 1
        elif c in ")]}>":
            depth -= 1
        if c == "," and depth == 0:
            out.append(cur)
            cur = ""
        else:
            cur += c
    if cur.strip():
        out.append(cur)
    return out


# ----------------------------------------------------------------------------- mode guards (peer_connection.rs)
def mode_guards(sources, ctor):
    """Where is `srtp_required` decided?  Every constructor site must pass either a local named
    `srtp_required` defined as `<cfg>.transport_mode != TransportMode::Rtp`, or the literal `false`; in the
    latter case every call of the enclosing function (transitively, within peer_connection.rs) must sit inside
    an `if` whose condition contains `transport_mode == TransportMode::Rtp`."""
    s = sources[PC]
    sc = Scopes(s)
    rows = []
    for rel, label, arg in ctor:
        if rel != PC:
            raise Untranslatable("RtpTransport constructed outside peer_connection.rs: %s %s" % (rel, label))
        fname = label.split("::")[-1].split("/")[0]
        if arg == "srtp_required":
            f = [x for x in sc.fns if x[2] == fname]
            if not f:
                raise Untranslatable("function %s not found" % fname)
            body = norm(s[f[0][4]:f[0][1]])
            mm = re.search(r"let srtp_required = ([^;]+);", body)
            if not mm:
                raise Untranslatable("%s: definition of srtp_required not found" % fname)
            d = mm.group(1)
            if re.fullmatch(r"self\.config\(\)\.transport_mode != TransportMode::Rtp", d):
                rows.append((label, "ReqUnlessRtpMode", "true"))
            else:
                raise Untranslatable("%s: srtp_required = %s (unrecognised)" % (fname, d))
        elif arg == "false":
            ok = guarded_transitively(s, sc, fname, set())
            rows.append((label, "ReqNever", "true" if ok else "false"))
        elif arg == "true":
            rows.append((label, "ReqAlways", "true"))
        else:
            raise Untranslatable("%s: srtp_required argument `%s` (unrecognised)" % (label, arg))
    return rows


def guarded_transitively(s, sc, fname, seen):
    """every call of fname in the file is inside `if ... transport_mode == TransportMode::Rtp ... {` or inside a
    function all of whose calls are"""
    if fname in seen:
        return True
    seen.add(fname)
    calls = [m for m in re.finditer(r"\b%s\s*\(" % re.escape(fname), s)
             if not re.search(r"\bfn\s+$", s[max(0, m.start() - 6):m.start()])]
    if not calls:
        return False      # nobody calls it here: public entry point, cannot be shown guarded
    for m in calls:
        if inside_rtp_mode_if(s, m.start()):
            continue
        f = sc.outer_fn_at(m.start())
        if f is None or not guarded_transitively(s, sc, f[2], seen):
            return False
    return True


def inside_rtp_mode_if(s, pos):
    # walk outwards over enclosing '{' and look at the text between the previous ';' / '}' / '{' and that brace
    depth = 0
    i = pos
    while i > 0:
        i -= 1
        c = s[i]
        if c == "}":
            depth += 1
        elif c == "{":
            if depth > 0:
                depth -= 1
                continue
            j = i - 1
            par = 0
            while j > 0:
                if s[j] == ")":
                    par += 1
                elif s[j] == "(":
                    par -= 1
                elif s[j] in ";{}" and par <= 0:
                    break
                j -= 1
            head = norm(s[j + 1:i])
            if re.match(r"^(?:else\s+)?if\b", head) and re.search(r"transport_mode == TransportMode::Rtp\b", head) \
                    and "||" not in head:
                return True
            if re.match(r"^(?:pub(?:\([a-z]+\))?\s+)?(?:async\s+)?fn\b", head):
                return False
    return False


# ----------------------------------------------------------------------------- gates (rtp.rs)
def req_cond(txt):
    """`self.srtp_required` / `!self.srtp_required` / target. variants -> polarity"""
    t = txt.replace(" ", "")
    if t in ("self.srtp_required", "target.srtp_required"):
        return True
    if t in ("!self.srtp_required", "!target.srtp_required"):
        return False
    raise Untranslatable("unrecognised required-condition `%s`" % txt)


def table(name, some_act, none_req_act, none_noreq_act, ty="gact"):
    return ("Definition %s (has_session required : bool) : %s :=\n"
            "  if has_session then %s else if required then %s else %s." % (name, ty, some_act, none_req_act, none_noreq_act))


def none_branch(txt, final, who, drop="GDrop", clear="GClear"):
    """txt: normalised text of the `session is None` branch.  Recognised forms:
         `if COND { ... return ...; } FINAL`   -> required(COND polarity) ? drop : clear
         `FINAL`                               -> clear in both modes
       where FINAL matches the regex `final` (the clear-text continuation)."""
    m = re.fullmatch(r"if ([^{]+?) \{ (?:[^{}]|\{[^{}]*\})*?return(?: [^;]*)?; \} (%s)" % final, txt)
    if m:
        pol = req_cond(m.group(1))
        return (drop, clear) if pol else (clear, drop)
    if re.fullmatch(final, txt):
        return (clear, clear)
    raise Untranslatable("%s: session-absent branch not recognised: %s" % (who, txt[:200]))


def positions(body, anchors, who):
    """ordered list of anchor names by first textual position; every anchor must occur"""
    found = []
    for name, rx in anchors:
        ms = list(re.finditer(rx, body))
        if not ms:
            raise Untranslatable("%s: statement `%s` not found" % (who, name))
        for m in ms:
            found.append((m.start(), name))
    found.sort()
    return [n for _, n in found]


def gates(m):
    src = rs2v.strip_comments(rs2v.read(RTP))
    impl = "RtpTransport"
    out = []

    # ---- send(buf)
    _, _, b = rs2v.find_fn(src, "send", impl)
    b = nostr(b)
    mm = re.search(r"let session = self\.srtp_session\.lock\(\)\.as_ref\(\)\.cloned\(\); "
                   r"let Some\(session\) = session else \{ (.*?) \}; let protected = \{", b)
    if not mm:
        raise Untranslatable("RtpTransport::send: session gate (`let Some(session) = session else {..}`) changed")
    nr, nn = none_branch(mm.group(1), r"return self\.transport\.send\(buf\)\.await;", "RtpTransport::send")
    if not re.search(r"srtp\.protect_rtp\(&packet, &mut protected\)\?; protected \}; self\.transport\.send\(&protected\)\.await \}$", b):
        raise Untranslatable("RtpTransport::send: protected tail changed")
    out.append(table("gate_send", "GProtect", nr, nn))
    st = positions(b, [("S_gate", r"self\.srtp_session\.lock\(\)"), ("S_clear_send", r"self\.transport\.send\(buf\)"),
                       ("S_protect", r"srtp\.protect_rtp\("), ("S_protected_send", r"self\.transport\.send\(&protected\)")],
                   "RtpTransport::send")
    out.append("Definition send_stages : list stage := [%s]." % "; ".join(st))

    # ---- send_rtp(packet)
    _, _, b = rs2v.find_fn(src, "send_rtp", impl)
    b = nostr(b)
    mm = re.search(r"let protected = \{ let session = self\.srtp_session\.lock\(\)\.as_ref\(\)\.cloned\(\); match session \{ "
                   r"Some\(session\) => \{ let mut srtp = session\.lock\(\); "
                   r"let mut protected = vec!\[0; srtp\.protected_rtp_len\(&packet\)\]; "
                   r"srtp\.protect_rtp\(&packet, &mut protected\)\?; protected \} "
                   r"None => \{ (.*?) \} \} \}; match self\.transport\.send\(&protected\)\.await \{", b)
    if not mm:
        raise Untranslatable("RtpTransport::send_rtp: session gate (`match session { Some.. None.. }`) changed")
    nr, nn = none_branch(mm.group(1), r"packet\.marshal\(\)\?", "RtpTransport::send_rtp")
    out.append(table("gate_send_rtp", "GProtect", nr, nn))
    st = positions(b, [("S_observer", r"self\.fire_egress\(&packet\)"), ("S_gate", r"self\.srtp_session\.lock\(\)"),
                       ("S_protect", r"srtp\.protect_rtp\("), ("S_marshal_clear", r"packet\.marshal\(\)\?"),
                       ("S_send", r"self\.transport\.send\(")], "RtpTransport::send_rtp")
    out.append("Definition send_rtp_stages : list stage := [%s]." % "; ".join(st))

    # ---- send_rtcp(packets)
    _, _, b = rs2v.find_fn(src, "send_rtcp", impl)
    b = nostr(b)
    mm = re.fullmatch(r"\{ let mut raw = marshal_rtcp_packets\(packets\)\?; let protected = \{ "
                      r"let session_guard = self\.srtp_session\.lock\(\); if let Some\(session\) = &\*session_guard \{ "
                      r"let mut srtp = session\.lock\(\); srtp\.protect_rtcp\(&mut raw\)\?; raw \} else \{ (.*?) \} \}; "
                      r"self\.transport\.send_rtcp\(&protected\)\.await \}", b)
    if not mm:
        raise Untranslatable("RtpTransport::send_rtcp: body changed")
    nr, nn = none_branch(mm.group(1), r"raw", "RtpTransport::send_rtcp")
    out.append(table("gate_send_rtcp", "GProtect", nr, nn))

    # ---- send_rtcp_sync(packets)
    _, _, b = rs2v.find_fn(src, "send_rtcp_sync", impl)
    b = nostr(b)
    mm = re.fullmatch(r"\{ let Ok\(mut raw\) = marshal_rtcp_packets\(packets\) else \{ return; \}; \{ "
                      r"let session_guard = self\.srtp_session\.lock\(\); if let Some\(session\) = &\*session_guard \{ "
                      r"if session\.lock\(\)\.protect_rtcp\(&mut raw\)\.is_err\(\) \{ return; \} \}"
                      r"(?: else if ([^{]+?) \{ return; \})? \} let _ = self\.ice_conn\(\)\.try_send\(&raw\); \}", b)
    if not mm:
        raise Untranslatable("RtpTransport::send_rtcp_sync: body changed")
    if mm.group(1) is None:
        nr, nn = "GClear", "GClear"
    else:
        nr, nn = ("GDrop", "GClear") if req_cond(mm.group(1)) else ("GClear", "GDrop")
    out.append(table("gate_send_rtcp_sync", "GProtect", nr, nn))

    # ---- bridge fast path
    _, _, b = rs2v.find_fn(src, "try_bridge_rewrite_rtp", impl)
    b = nostr(b)
    mm = re.search(r"\{ let session_guard = target\.srtp_session\.lock\(\); if let Some\(session\) = &\*session_guard \{ "
                   r"let mut srtp = session\.lock\(\); let protected_len = srtp\.protected_rtp_len\(&packet\); "
                   r"marshal_buf\.resize\(protected_len, 0\); "
                   r"if srtp\.protect_rtp\(&packet, &mut marshal_buf\[\.\.\]\)\.is_err\(\) \{ (?:[^{}]|\{[^{}]*\})*? return None; \} \}"
                   r"(?: else if ([^{]+?) \{ (?:[^{}]|\{[^{}]*\})*? return None; \})? else \{ packet\.marshal_into\(marshal_buf\); \} \} "
                   r"if let Err\(e\) = target\.ice_conn\(\)\.try_send\(marshal_buf\) \{", b)
    if not mm:
        raise Untranslatable("RtpTransport::try_bridge_rewrite_rtp: target gate changed")
    if mm.group(1) is None:
        nr, nn = "GClear", "GClear"
    else:
        if not mm.group(1).strip().startswith(("target.", "!target.")):
            raise Untranslatable("bridge gate consults `%s`, expected the TARGET's srtp_required" % mm.group(1))
        nr, nn = ("GDrop", "GClear") if req_cond(mm.group(1)) else ("GClear", "GDrop")
    out.append(table("gate_bridge", "GProtect", nr, nn))
    st = positions(b, [("S_bridge_check", r"self\.has_bridge\.load\("), ("S_observer", r"target\.fire_egress\(&packet\)"),
                       ("S_gate", r"target\.srtp_session\.lock\(\)"), ("S_protect", r"srtp\.protect_rtp\("),
                       ("S_marshal_clear", r"packet\.marshal_into\(marshal_buf\)"),
                       ("S_send", r"target\.ice_conn\(\)\.try_send\(")], "RtpTransport::try_bridge_rewrite_rtp")
    out.append("Definition bridge_stages : list stage := [%s]." % "; ".join(st))
    if re.search(r"self\.srtp_session|self\.srtp_required", b):
        raise Untranslatable("bridge fast path consults the SOURCE's session / required flag")

    # ---- receive
    _, _, b = rs2v.find_fn(src, "receive", "PacketReceiver for RtpTransport")
    b = nostr(b)
    mm = re.search(r"if is_rtcp_packet \{ let unprotected: Bytes = \{ "
                   r"let session = self\.srtp_session\.lock\(\)\.as_ref\(\)\.map\(\|s\| s\.clone\(\)\); match session \{ "
                   r"Some\(session\) => \{ let mut buf = packet\.to_vec\(\); let mut srtp = session\.lock\(\); "
                   r"match srtp\.unprotect_rtcp\(&mut buf\) \{ Ok\(\(\)\) => Bytes::from\(buf\), "
                   r"Err\(e\) => \{ (?:[^{}])*? return; \} \} \} "
                   r"None => \{ (.*?) \} \} \}; let listener = \{ let guard = self\.rtcp_listener\.lock\(\);", b)
    if not mm:
        raise Untranslatable("RtpTransport::receive: RTCP gate changed")
    nr, nn = none_branch(mm.group(1), r"packet", "RtpTransport::receive (RTCP)", drop="RDrop", clear="RPlain")
    out.append(table("gate_recv_rtcp", "RUnprotect", nr, nn, ty="ract"))
    mm = re.search(r"\} else \{ let rtp_packet = \{ let session = self\.srtp_session\.lock\(\)\.as_ref\(\)\.cloned\(\); match session \{ "
                   r"Some\(session\) => \{ let packet = match packet\.try_into_mut\(\) \{ Ok\(packet\) => packet, "
                   r"Err\(packet\) => BytesMut::from\(packet\.as_ref\(\)\), \}; match SrtpPacket::parse\(packet\) \{ "
                   r"Ok\(srtp_packet\) => \{ (?:let [a-z_]+ = srtp_packet\.header\(\)\.[a-z_]+; )*"
                   r"let mut srtp = session\.lock\(\); match srtp\.unprotect_rtp\(srtp_packet\) \{ "
                   r"Ok\(rtp_packet\) => rtp_packet, Err\(error\) => \{ (?:[^{}]|\{(?:[^{}]|\{[^{}]*\})*\})*? return; \} \} \} "
                   r"Err\(e\) => \{ [^{}]*? return; \} \} \} "
                   r"None => \{ (.*?) \} \} \}; self\.received_rtp_packets\.fetch_add", b)
    if not mm:
        raise Untranslatable("RtpTransport::receive: RTP gate changed")
    nr, nn = none_branch(mm.group(1),
                         r"match RtpPacket::parse_bytes\(packet\) \{ Ok\(rtp_packet\) => rtp_packet, Err\(e\) => \{ [^{}]*? return; \} \}",
                         "RtpTransport::receive (RTP)", drop="RDrop", clear="RPlain")
    out.append(table("gate_recv_rtp", "RUnprotect", nr, nn, ty="ract"))
    st = positions(b, [("S_gate", r"self\.srtp_session\.lock\(\)"), ("S_unprotect_rtcp", r"srtp\.unprotect_rtcp\("),
                       ("S_rtcp_listener", r"try_send_with_fallback\(&tx, packets\)"),
                       ("S_unprotect_rtp", r"srtp\.unprotect_rtp\("), ("S_plain_parse", r"RtpPacket::parse_bytes\(packet\)"),
                       ("S_observer", r"self\.fire_ingress\(&rtp_packet, addr\)"),
                       ("S_bridge", r"self\.try_bridge_rewrite_rtp\(rtp_packet, marshal_buf\)"),
                       ("S_listener", r"try_send_dropping\(&tx, \(rtp_packet, addr\)\)")], "RtpTransport::receive")
    out.append("Definition receive_stages : list stage := [%s]." % "; ".join(st))

    # ---- the session slot is written only by start_srtp; the flag is immutable
    writes = [mmm.start() for mmm in re.finditer(r"\*\s*session\s*=|\*self\.srtp_session\.lock\(\)\s*=|srtp_session\.lock\(\)\.take\(\)|srtp_session\.lock\(\)\.replace\(", src)]
    _, _, ss = rs2v.find_fn(src, "start_srtp", impl)
    if norm(ss) != "{ let mut session = self.srtp_session.lock(); *session = Some(Arc::new(Mutex::new(srtp_session))); }":
        raise Untranslatable("RtpTransport::start_srtp changed: " + norm(ss))
    if len(writes) != 1:
        raise Untranslatable("the SRTP session slot is assigned in %d places (expected only start_srtp)" % len(writes))
    if re.search(r"srtp_required\s*=[^=]", re.sub(r"srtp_required\s*:", "", src)) or \
            not re.search(r"\bsrtp_required: bool,", src):
        raise Untranslatable("srtp_required is no longer an immutable bool field")
    return out


def gen_sites():
    m = Module("SendSites")
    try:
        sources, send_sites, socket_sites, uses, ctor, callers, extra = census()
        guards = mode_guards(sources, ctor)
        gate_lines = gates(m)
    except Untranslatable:
        raise
    except Exception as e:                       # never crash the translator: report as untranslatable
        raise Untranslatable("gen_c14 internal error: %r" % (e,))
    L = []
    L.append("From Coq Require Import String.\nLocal Open Scope string_scope.")
    L.append("Inductive callee : Set := CSend | CTrySend | CSendRtcp | CSendBatch.")
    L.append("(* (file, enclosing function, callee, receiver, number of such calls in the function) *)")
    L.append("Definition send_sites : list (string * string * callee * string * Z) := [\n  %s]." % ";\n  ".join(
        "(%s, %s, %s, %s, %d)" % (coq_str(f), coq_str(fn), c, coq_str(r), n) for (f, fn, c, r), n in sorted(send_sites.items())))
    L.append("(* raw socket writes: (file, enclosing function, method, count) *)")
    L.append("Definition socket_sites : list (string * string * string * Z) := [\n  %s]." % ";\n  ".join(
        "(%s, %s, %s, %d)" % (coq_str(f), coq_str(fn), coq_str(c), n) for (f, fn, c), n in sorted(socket_sites.items())))
    L.append("(* calls of functions returning an IceConn: (file, enclosing function, accessor, use, count) *)")
    L.append("Definition ice_conn_uses : list (string * string * string * string * Z) := [\n  %s]." % ";\n  ".join(
        "(%s, %s, %s, %s, %d)" % (coq_str(f), coq_str(fn), coq_str(a), coq_str(u), n) for (f, fn, a, u), n in sorted(uses.items())))
    L.append("(* informational: callers of the gated senders of RtpTransport (NACK / RTX retransmission, RTCP reports and "
             "feedback, close-time BYE ...): (file, enclosing function, gated sender, count) *)")
    L.append("Definition gated_callers : list (string * string * string * Z) := [\n  %s]." % ";\n  ".join(
        "(%s, %s, %s, %d)" % (coq_str(f), coq_str(fn), coq_str(c), n) for (f, fn, c), n in sorted(callers.items())))
    carriers, holders, ice_impls, recv_impls, macros = extra
    L.append("(* every function whose signature mentions IceConn: (file, function, param / ret / param+ret) -- a helper that takes "
             "or hands out the raw connection *)")
    L.append("Definition ice_conn_carriers : list (string * string * string) := [\n  %s]." % ";\n  ".join(
        "(%s, %s, %s)" % (coq_str(f), coq_str(fn), coq_str(k)) for f, fn, k in sorted(set(carriers))))
    L.append("(* every struct field whose declared type mentions IceConn: (file, field, type) *)")
    L.append("Definition ice_conn_holders : list (string * string * string) := [\n  %s]." % ";\n  ".join(
        "(%s, %s, %s)" % (coq_str(f), coq_str(fl), coq_str(t)) for f, fl, t in sorted(set(holders))))
    L.append("(* every trait implemented for IceConn (what a `dyn Trait` holding an IceConn can do): "
             "(file, trait, methods, number of send / socket-write sites inside the impl) *)")
    L.append("Definition ice_conn_trait_impls : list (string * string * string * Z) := [\n  %s]." % ";\n  ".join(
        "(%s, %s, %s, %d)" % (coq_str(f), coq_str(t), coq_str(ms), n) for f, t, ms, n in sorted(ice_impls)))
    L.append("(* every PacketReceiver impl: (file, type, IceConn send sites inside, raw socket writes inside) *)")
    L.append("Definition packet_receiver_impls : list (string * string * Z * Z) := [\n  %s]." % ";\n  ".join(
        "(%s, %s, %d, %d)" % (coq_str(f), coq_str(t), a, b) for f, t, a, b in sorted(recv_impls)))
    L.append("(* macro_rules! whose body mentions a sender or an IceConn: (file, name) *)")
    L.append("Definition send_macros : list (string * string) := [%s]." % "; ".join(
        "(%s, %s)" % (coq_str(f), coq_str(n)) for f, n in sorted(macros)))
    L.append("Inductive req_rule : Set := ReqUnlessRtpMode | ReqNever | ReqAlways.")
    L.append("(* RtpTransport constructor sites: (enclosing function, how srtp_required is decided, "
             "for ReqNever: every call path is guarded by transport_mode == TransportMode::Rtp) *)")
    L.append("Definition ctor_sites : list (string * req_rule * bool) := [\n  %s]." % ";\n  ".join(
        "(%s, %s, %s)" % (coq_str(fn), r, ok) for fn, r, ok in guards))
    L.append("Inductive gact : Set := GProtect | GDrop | GClear.")
    L.append("Inductive ract : Set := RUnprotect | RDrop | RPlain.")
    L.append("Inductive stage : Set := S_gate | S_observer | S_protect | S_marshal_clear | S_send | S_clear_send | "
             "S_protected_send | S_bridge_check | S_unprotect_rtcp | S_rtcp_listener | S_unprotect_rtp | S_plain_parse | "
             "S_bridge | S_listener.")
    L.extend(gate_lines)
    m.raw("\n".join(L), "call-site census, constructor sites, gate tables and statement order", "src/**/*.rs")
    m.manifest.append({"item": "gate tables of RtpTransport::{send,send_rtp,send_rtcp,send_rtcp_sync,try_bridge_rewrite_rtp,receive}", "file": RTP})
    m.manifest.append({"item": "RtpTransport constructor sites and transport_mode guards", "file": PC})
    return m


MODULES = {"SendSites": gen_sites}
