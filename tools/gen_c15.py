"""C15 translator plugin: Gen/RtpConsts.v -- every literal of the RTP/RTCP codec in src/rtp.rs (and the
receiver NACK handler in src/peer_connection.rs) that the C15 model and theorems depend on.

The literals live inline in function bodies (masks, shifts, minimum lengths, profile ids, clamp
bounds), so they are found by anchored regular expressions on the comment-stripped body of the
named function; each pattern must match exactly once, otherwise the module is Untranslatable
(never guessed).  Parse-side and write-side masks are extracted separately (P_* / W_*) so that a
change on one side only breaks the round-trip proofs.
"""
import re
import sys

import rs2v
from rs2v import Module, Untranslatable, strip_comments, read, find_fn

RTP = "src/rtp.rs"
PC = "src/peer_connection.rs"


def _int(tok):
    tok = tok.replace("_", "")
    return int(tok, 16) if tok.lower().startswith("0x") else int(tok)


NUM = r"(0x[0-9A-Fa-f_]+|\d[\d_]*)"


def _one(body, pattern, what, count=1):
    ms = re.findall(pattern.replace("NUM", NUM), body)
    if len(ms) != count:
        raise Untranslatable("%s: expected %d match(es) of /%s/, found %d" % (what, count, pattern, len(ms)))
    vals = {_int(m if isinstance(m, str) else m[0]) for m in ms}
    if len(vals) != 1:
        raise Untranslatable("%s: occurrences disagree: %r" % (what, sorted(vals)))
    return vals.pop()


def _gen_rtpconsts():
    m = Module("RtpConsts")
    src = strip_comments(read(RTP))

    def fn(name, impl=None):
        return find_fn(src, name, impl)[2]

    def put(name, val, item):
        m.raw("Definition %s : Z := %d." % (name, val), item, RTP)

    # ---- RtpHeader::parse
    b = fn("parse", "RtpHeader")
    put("P_HDR_MIN", _one(b, r"^\s*\{\s*if\s+raw\.remaining\(\)\s*<\s*NUM\s*\{", "RtpHeader::parse min length"), "RtpHeader::parse min length")
    put("P_VERSION_SHIFT", _one(b, r"let\s+version\s*=\s*b0\s*>>\s*NUM\s*;", "RtpHeader::parse version shift"), "RtpHeader::parse version shift")
    put("P_PAD_MASK", _one(b, r"let\s+padding\s*=\s*\(b0\s*&\s*NUM\)\s*!=\s*0\s*;", "RtpHeader::parse padding mask"), "RtpHeader::parse padding mask")
    put("P_EXT_MASK", _one(b, r"let\s+extension\s*=\s*\(b0\s*&\s*NUM\)\s*!=\s*0\s*;", "RtpHeader::parse extension mask"), "RtpHeader::parse extension mask")
    put("P_CC_MASK", _one(b, r"let\s+csrc_count\s*=\s*\(b0\s*&\s*NUM\)\s*as\s+usize\s*;", "RtpHeader::parse cc mask"), "RtpHeader::parse cc mask")
    put("P_MARKER_MASK", _one(b, r"let\s+marker\s*=\s*\(b1\s*&\s*NUM\)\s*!=\s*0\s*;", "RtpHeader::parse marker mask"), "RtpHeader::parse marker mask")
    put("P_PT_MASK", _one(b, r"let\s+payload_type\s*=\s*b1\s*&\s*NUM\s*;", "RtpHeader::parse pt mask"), "RtpHeader::parse pt mask")
    put("P_CSRC_SIZE", _one(b, r"raw\.remaining\(\)\s*<\s*csrc_count\s*\*\s*NUM\s*\{", "RtpHeader::parse csrc size"), "RtpHeader::parse csrc size")
    put("P_EXT_HDR", _one(b, r"if\s+extension\s*\{\s*if\s+raw\.remaining\(\)\s*<\s*NUM\s*\{", "RtpHeader::parse ext header size"), "RtpHeader::parse ext header size")
    put("P_EXT_WORD", _one(b, r"let\s+extension_len\s*=\s*raw\.get_u16\(\)\s*as\s+usize\s*\*\s*NUM\s*;", "RtpHeader::parse ext word size"), "RtpHeader::parse ext word size")
    # ---- RtpHeader::write_to
    b = fn("write_to", "RtpHeader")
    put("W_VERSION_SHIFT", _one(b, r"let\s+mut\s+b0\s*=\s*RTP_VERSION\s*<<\s*NUM\s*;", "write_to version shift"), "RtpHeader::write_to version shift")
    put("W_PAD_BIT", _one(b, r"if\s+has_padding\s*\{\s*b0\s*\|=\s*NUM\s*;", "write_to padding bit"), "RtpHeader::write_to padding bit")
    put("W_EXT_BIT", _one(b, r"if\s+self\.extension\.is_some\(\)\s*\{\s*b0\s*\|=\s*NUM\s*;", "write_to extension bit"), "RtpHeader::write_to extension bit")
    put("W_CC_MASK", _one(b, r"b0\s*\|=\s*\(self\.csrcs\.len\(\)\s*&\s*NUM\)\s*as\s+u8\s*;", "write_to cc mask"), "RtpHeader::write_to cc mask")
    put("W_PT_MASK", _one(b, r"let\s+mut\s+b1\s*=\s*self\.payload_type\s*&\s*NUM\s*;", "write_to pt mask"), "RtpHeader::write_to pt mask")
    put("W_MARKER_BIT", _one(b, r"if\s+self\.marker\s*\{\s*b1\s*\|=\s*NUM\s*;", "write_to marker bit"), "RtpHeader::write_to marker bit")
    put("W_EXT_WORD", _one(b, r"let\s+length_words\s*=\s*\(extension\.data\.len\(\)\s*/\s*NUM\)\s*as\s+u16\s*;", "write_to ext word size"), "RtpHeader::write_to ext word size")
    # ---- validate / encoded_len
    b = fn("validate", "RtpHeader")
    put("MAX_CSRC", _one(b, r"self\.csrcs\.len\(\)\s*>\s*NUM", "validate max csrc"), "RtpHeader::validate max csrc")
    put("EXT_ALIGN", _one(b, r"ext\.data\.len\(\)\s*%\s*NUM\s*!=\s*0", "validate ext alignment"), "RtpHeader::validate ext alignment")
    b = fn("encoded_len", "RtpHeader")
    put("E_HDR_FIXED", _one(b, r"^\s*\{\s*NUM\s*\+\s*self\.csrcs\.len\(\)", "encoded_len fixed"), "RtpHeader::encoded_len fixed part")
    put("E_CSRC_SIZE", _one(b, r"self\.csrcs\.len\(\)\s*\*\s*NUM", "encoded_len csrc size"), "RtpHeader::encoded_len csrc size")
    put("E_EXT_HDR", _one(b, r"\|extension\|\s*NUM\s*\+\s*extension\.data\.len\(\)", "encoded_len ext header"), "RtpHeader::encoded_len ext header")
    # ---- header extensions (RFC 8285)
    g = fn("get_extension", "RtpHeader")
    s = fn("set_extension", "RtpHeader")
    put("EXT_ONE_BYTE", _one(g, r"(?<!else )if\s+ext\.profile\s*==\s*NUM\s*\{", "get_extension one-byte profile"), "RtpHeader::get_extension one-byte profile")
    put("EXT_TWO_BYTE", _one(g, r"else\s+if\s+ext\.profile\s*==\s*NUM\s*\{", "get_extension two-byte profile"), "RtpHeader::get_extension two-byte profile")
    put("G_ID_SHIFT", _one(g, r"let\s+ext_id\s*=\s*b\s*>>\s*NUM\s*;", "get_extension id shift"), "RtpHeader::get_extension id shift")
    put("G_LEN_MASK", _one(g, r"let\s+len\s*=\s*\(b\s*&\s*NUM\)\s*as\s+usize\s*\+\s*1\s*;", "get_extension len mask"), "RtpHeader::get_extension len mask")
    put("G_ID_STOP", _one(g, r"if\s+ext_id\s*==\s*NUM\s*\{\s*break", "get_extension stop id"), "RtpHeader::get_extension stop id")
    put("S_PROFILE", _one(s, r"RtpHeaderExtension::new\(\s*NUM\s*,\s*Vec::new\(\)\)", "set_extension default profile"), "RtpHeader::set_extension default profile")
    put("S_PROFILE_CHECK", _one(s, r"if\s+ext\.profile\s*!=\s*NUM\s*\{", "set_extension profile check"), "RtpHeader::set_extension profile check")
    put("S_ID_MAX", _one(s, r"id\s*==\s*0\s*\|\|\s*id\s*>=\s*NUM", "set_extension id bound"), "RtpHeader::set_extension id bound")
    put("S_LEN_MAX", _one(s, r"data\.len\(\)\s*>\s*NUM\s*\|\|\s*data\.is_empty\(\)", "set_extension length bound"), "RtpHeader::set_extension length bound")
    put("S_ID_SHIFT", _one(s, r"let\s+id_header\s*=\s*\(id\s*<<\s*NUM\)", "set_extension id shift (write)"), "RtpHeader::set_extension id shift (write)")
    put("S_RD_ID_SHIFT", _one(s, r"let\s+ext_id\s*=\s*b\s*>>\s*NUM\s*;", "set_extension id shift (read)"), "RtpHeader::set_extension id shift (read)")
    put("S_LEN_MASK", _one(s, r"let\s+len\s*=\s*\(b\s*&\s*NUM\)\s*as\s+usize\s*\+\s*1\s*;", "set_extension len mask"), "RtpHeader::set_extension len mask")
    put("S_ID_STOP", _one(s, r"if\s+ext_id\s*==\s*NUM\s*\{\s*break", "set_extension stop id"), "RtpHeader::set_extension stop id")
    put("S_ALIGN_ADD", _one(s, r"let\s+aligned\s*=\s*\(new_data\.len\(\)\s*\+\s*NUM\)\s*&\s*!\d+\s*;", "set_extension align add"), "RtpHeader::set_extension align add")
    put("S_ALIGN_MASK", _one(s, r"let\s+aligned\s*=\s*\(new_data\.len\(\)\s*\+\s*\d+\)\s*&\s*!NUM\s*;", "set_extension align mask"), "RtpHeader::set_extension align mask")

    # ---- RTCP (parse_rtcp_packets / write_rtcp_packet / builders / sub-parsers)
    b = fn("parse_rtcp_packets")
    put("R_VERSION_SHIFT", _one(b, r"let\s+version\s*=\s*vrc\s*>>\s*NUM\s*;", "parse_rtcp_packets version shift"), "parse_rtcp_packets version shift")
    put("R_PAD_MASK", _one(b, r"let\s+padding\s*=\s*\(vrc\s*&\s*NUM\)\s*!=\s*0\s*;", "parse_rtcp_packets padding mask"), "parse_rtcp_packets padding mask")
    put("R_FMT_MASK", _one(b, r"let\s+fmt\s*=\s*vrc\s*&\s*NUM\s*;", "parse_rtcp_packets fmt mask"), "parse_rtcp_packets fmt mask")
    b = fn("write_rtcp_packet")
    put("WR_VERSION_SHIFT", _one(b, r"out\.push\(\(RTP_VERSION\s*<<\s*NUM\)", "write_rtcp_packet version shift"), "write_rtcp_packet version shift")
    put("WR_FMT_MASK", _one(b, r"\|\s*\(fmt\s*&\s*NUM\)\)", "write_rtcp_packet fmt mask"), "write_rtcp_packet fmt mask")
    b = fn("write_rtcp_packet_padded")
    mm = re.search(r"let\s+pad\s*=\s*\((\d+)\s*-\s*body\.len\(\)\s*%\s*(\d+)\)\s*%\s*(\d+)\s*;", b)
    if not mm or len({mm.group(1), mm.group(2), mm.group(3)}) != 1:
        raise Untranslatable("write_rtcp_packet_padded: pad computation not of the form (N - len % N) % N")
    put("WP_ALIGN", int(mm.group(1)), "write_rtcp_packet_padded alignment")
    put("WP_PAD_BIT", _one(b, r"out\[start\]\s*\|=\s*NUM\s*;", "write_rtcp_packet_padded P bit"), "write_rtcp_packet_padded P bit")
    put("MAX_SR_BLOCKS", _one(fn("build_sender_report_body"), r"sr\.report_blocks\.len\(\)\s*>\s*NUM\s*\{", "SR max blocks"), "build_sender_report_body max blocks")
    put("MAX_RR_BLOCKS", _one(fn("build_receiver_report_body"), r"rr\.report_blocks\.len\(\)\s*>\s*NUM\s*\{", "RR max blocks"), "build_receiver_report_body max blocks")
    b = fn("build_sdes_body")
    put("MAX_SDES_CHUNKS", _one(b, r"sdes\.chunks\.len\(\)\s*>\s*NUM\s*\{", "SDES max chunks"), "build_sdes_body max chunks")
    put("SDES_ITEM_MAX", _one(b, r"item\.text\.len\(\)\s*>\s*NUM\s*\{", "SDES max item length"), "build_sdes_body max item length")
    b = fn("build_goodbye_body")
    put("MAX_BYE_SOURCES", _one(b, r"bye\.sources\.len\(\)\s*>\s*NUM\s*\{", "BYE max sources"), "build_goodbye_body max sources")
    put("BYE_REASON_MAX", _one(b, r"bytes\.len\(\)\.min\(NUM\)", "BYE max reason"), "build_goodbye_body max reason length")
    b = fn("build_report_block")
    put("LOST_BOUND", 1 << _one(b, r"clamp\(-\(1\s*<<\s*NUM\),\s*\(1\s*<<\s*\d+\)\s*-\s*1\)", "packets_lost clamp (low)"), "build_report_block clamp bound")
    if _one(b, r"clamp\(-\(1\s*<<\s*\d+\),\s*\(1\s*<<\s*NUM\)\s*-\s*1\)", "packets_lost clamp (high)") != _one(b, r"clamp\(-\(1\s*<<\s*NUM\),", "packets_lost clamp (low)"):
        raise Untranslatable("build_report_block: asymmetric clamp")
    b = fn("build_remb_body")
    put("REMB_MAX_SSRCS", _one(b, r"remb\.ssrcs\.len\(\)\s*>\s*NUM\s*\{", "REMB max ssrcs"), "build_remb_body max ssrcs")
    put("REMB_MANT_MAX", _one(b, r"while\s+mantissa\s*>\s*NUM\s*\{", "REMB mantissa bound"), "build_remb_body mantissa bound")
    put("TWCC_REF_MASK", _one(fn("build_twcc_body"), r"twcc\.reference_time_64ms\s*&\s*NUM\s*;", "TWCC reference time mask"), "build_twcc_body reference time mask")
    put("SR_MIN", _one(fn("parse_sender_report"), r"^\s*\{\s*if\s+body\.len\(\)\s*<\s*NUM\s*\{", "SR min body"), "parse_sender_report min body")
    put("BLOCK_SIZE", _one(fn("parse_sender_report"), r"body\.len\(\)\s*<\s*offset\s*\+\s*NUM\s*\{", "report block size"), "parse_sender_report block size")
    if _one(fn("parse_receiver_report"), r"body\.len\(\)\s*<\s*offset\s*\+\s*NUM\s*\{", "RR block size") != _one(fn("parse_sender_report"), r"body\.len\(\)\s*<\s*offset\s*\+\s*NUM\s*\{", "SR block size"):
        raise Untranslatable("SR and RR report block sizes differ")
    put("RR_MIN", _one(fn("parse_receiver_report"), r"^\s*\{\s*if\s+body\.len\(\)\s*<\s*NUM\s*\{", "RR min body"), "parse_receiver_report min body")
    put("PSFB_MIN", _one(fn("parse_psfb_common"), r"^\s*\{\s*if\s+body\.len\(\)\s*<\s*NUM\s*\{", "PLI min body"), "parse_psfb_common min body")
    put("FIR_MIN", _one(fn("parse_fir_body"), r"^\s*\{\s*if\s+body\.len\(\)\s*<\s*NUM\s*\{", "FIR min body"), "parse_fir_body min body")
    put("NACK_MIN", _one(fn("parse_nack_body"), r"^\s*\{\s*if\s+body\.len\(\)\s*<\s*NUM\s*\{", "NACK min body"), "parse_nack_body min body")
    put("REMB_MIN", _one(fn("parse_remb_body"), r"^\s*\{\s*if\s+body\.len\(\)\s*<\s*NUM\s*\|\|", "REMB min body"), "parse_remb_body min body")
    put("TWCC_MIN", _one(fn("parse_twcc_body"), r"^\s*\{\s*if\s+body\.len\(\)\s*<\s*NUM\s*\{", "TWCC min body"), "parse_twcc_body min body")
    # ---- sender NACK handler (src/peer_connection.rs)
    pc = strip_comments(read(PC))
    mm = re.findall(r"const\s+NACK_RESEND_COOLDOWN\s*:\s*Duration\s*=\s*Duration::from_millis\((\d+)\)\s*;", pc)
    if len(mm) != 1:
        raise Untranslatable("NACK_RESEND_COOLDOWN: expected one `Duration::from_millis(N)` definition")
    m.raw("Definition NACK_RESEND_COOLDOWN_US : Z := %d." % (int(mm[0]) * 1000), "const NACK_RESEND_COOLDOWN (microseconds)", PC)
    _, _, body = find_fn(pc, "packets_for_nack", "DefaultRtpSenderNackHandler")
    m.raw("Definition RECENT_PRUNE_FACTOR : Z := %d." % _one(body, r"recent\.len\(\)\s*>\s*self\.max_size\.saturating_mul\(NUM\)", "packets_for_nack prune factor"),
          "packets_for_nack prune factor", PC)
    _, _, body = find_fn(pc, "new", "DefaultRtpSenderNackHandler")
    m.raw("Definition SENDER_MIN_SIZE : Z := %d." % _one(body, r"let\s+max_size\s*=\s*max_size\.max\(NUM\)\s*;", "DefaultRtpSenderNackHandler::new minimum size"),
          "DefaultRtpSenderNackHandler::new minimum size", PC)
    return m


def _wrap(f):
    """rs2v.py runs as __main__ and catches *its own* Untranslatable class; `import rs2v` gives this plugin a
    second copy of the module, so re-raise with the class main() catches (otherwise a failed extraction would
    be a crash instead of a reported broken tie)."""
    def g():
        try:
            return f()
        except Untranslatable as e:
            main = sys.modules.get("__main__")
            cls = getattr(main, "Untranslatable", None)
            if cls is not None and cls is not Untranslatable:
                raise cls(str(e))
            raise
    return g


MODULES = {"RtpConsts": _wrap(_gen_rtpconsts)}
