"""C16 translator plugin: ICE priorities (Gen/IcePrio.v) and the STUN code tables (Gen/StunCodes.v).

IcePrio:   IceCandidate::priority_for, IceCandidate::priority_for_tcp, IceCandidatePair::priority
           (+ the enums they match on), from src/transports/ice/mod.rs.
StunCodes: enums StunMethod / StunClass, the method/class code tables of encode_stun_message and
           decode_stun_message (with the two masks), the attribute type codes written by
           append_attribute / read by decode_stun_message, the literal lengths the encoder writes,
           from src/transports/ice/stun.rs; ChannelData range from turn.rs is handled by hand.

Everything is found by anchored regular expressions on the comment-stripped source and raises
Untranslatable when the shape is not the expected one.
"""
import re

import rs2v
from rs2v import Module, Untranslatable, strip_comments, read, find_fn, find_struct_fields, P, tokenize, coq_type

ICE = "src/transports/ice/mod.rs"
STUN = "src/transports/ice/stun.rs"


def gen_iceprio():
    m = Module("IcePrio")
    for e in ("IceCandidateType", "TcpType", "IceRole"):
        m.add_enum(ICE, e)
    m.add_fn(ICE, "priority_for", impl="IceCandidate")
    m.add_fn(ICE, "priority_for_tcp", impl="IceCandidate")
    # IceCandidatePair::priority reads self.local.priority / self.remote.priority (nested fields):
    # they become the two leading parameters, after checking their declared type.
    src = strip_comments(read(ICE))
    if find_struct_fields(src, "IceCandidate").get("priority") != "u32":
        raise Untranslatable("IceCandidate.priority is not u32")
    pf = find_struct_fields(src, "IceCandidatePair")
    if pf.get("local") != "IceCandidate" or pf.get("remote") != "IceCandidate":
        raise Untranslatable("IceCandidatePair.{local,remote} are not IceCandidate")
    params, ret, body = find_fn(src, "priority", "IceCandidatePair")
    if [p.strip() for p in params.split(",")] != ["&self", "role: IceRole"] or ret != "u64":
        raise Untranslatable("IceCandidatePair::priority has signature (%s) -> %s" % (params, ret))
    body = body.replace("self.local.priority", "local_priority").replace("self.remote.priority", "remote_priority")
    if "self" in body:
        raise Untranslatable("IceCandidatePair::priority uses self beyond local/remote priority")
    env = {"local_priority": ("local_priority", "u32"), "remote_priority": ("remote_priority", "u32"),
           "role": ("role", "IceRole")}
    ast = P(tokenize(body)).parse_block()
    s, _t = m.gen.block(ast, env, "u64")
    m.raw("Definition pair_priority (local_priority : Z) (remote_priority : Z) (role : IceRole) : Z :=\n  %s." % s,
          "fn IceCandidatePair::priority", ICE)
    return m


# ------------------------------------------------------------------------------------ STUN codes
def _arms(body, anchor):
    """`match <anchor> { A::X => 0x.., ... }` -> list of (variant, int)"""
    mm = re.search(r"match\s+%s\s*\{" % anchor, body)
    if not mm:
        raise Untranslatable("match %s not found" % anchor)
    end = rs2v.balanced(body, mm.end() - 1)
    inner = body[mm.end():end - 1]
    return inner


def gen_stuncodes():
    m = Module("StunCodes")
    m.add_enum(STUN, "StunClass")
    m.add_enum(STUN, "StunMethod")
    src = strip_comments(read(STUN))
    methods = m.gen.enums["StunMethod"]
    classes = m.gen.enums["StunClass"]

    # ---- encoder tables
    _, _, enc = find_fn(src, "encode_stun_message")
    inner = _arms(enc, r"msg\.method")
    me = re.findall(r"StunMethod::(\w+)\s*=>\s*(0x[0-9A-Fa-f]+)\s*,", inner)
    if sorted(v for v, _ in me) != sorted(methods) or len(me) != len(methods):
        raise Untranslatable("encode_stun_message: method table does not cover StunMethod exactly")
    inner = _arms(enc, r"msg\.class")
    ce = re.findall(r"StunClass::(\w+)\s*=>\s*(0x[0-9A-Fa-f]+)\s*,", inner)
    if sorted(v for v, _ in ce) != sorted(classes) or len(ce) != len(classes):
        raise Untranslatable("encode_stun_message: class table does not cover StunClass exactly")
    if not re.search(r"let\s+msg_type\s*=\s*method_bits\s*\|\s*class_bits\s*;", enc):
        raise Untranslatable("encode_stun_message: msg_type is not method_bits | class_bits")
    m.raw("Definition method_code (x : StunMethod) : Z := match x with %s end." %
          " ".join("| StunMethod_%s => %d" % (v, int(c, 16)) for v, c in me), "encode_stun_message method table", STUN)
    m.raw("Definition class_code (x : StunClass) : Z := match x with %s end." %
          " ".join("| StunClass_%s => %d" % (v, int(c, 16)) for v, c in ce), "encode_stun_message class table", STUN)
    mi = re.search(r"append_raw_attribute\(&mut buffer,\s*(0x[0-9A-Fa-f]+),\s*&hmac\)", enc)
    fp = re.search(r"append_raw_attribute\(&mut buffer,\s*(0x[0-9A-Fa-f]+),\s*&crc\.to_be_bytes\(\)\)", enc)
    mil = re.search(r"let\s+len_including_mi\s*=\s*\(buffer\.len\(\)\s*-\s*(\d+)\)\s*\+\s*(\d+)\s*;", enc)
    fpl = re.search(r"let\s+len_including_fp\s*=\s*\(buffer\.len\(\)\s*-\s*(\d+)\)\s*\+\s*(\d+)\s*;", enc)
    hdr = re.search(r"let\s+mut\s+buffer\s*=\s*vec!\[0u8;\s*(\d+)\]", enc)
    if not (mi and fp and mil and fpl and hdr):
        raise Untranslatable("encode_stun_message: MESSAGE-INTEGRITY / FINGERPRINT steps not found")
    if not re.search(r"crc32\(&buffer\)\s*\^\s*FINGERPRINT_XOR", enc):
        raise Untranslatable("encode_stun_message: fingerprint is not crc32(&buffer) ^ FINGERPRINT_XOR")
    m.raw("Definition ATTR_MESSAGE_INTEGRITY : Z := %d.\nDefinition ATTR_FINGERPRINT : Z := %d.\n"
          "Definition STUN_HEADER_LEN : Z := %d.\nDefinition MI_LEN_SUB : Z := %d.\nDefinition MI_LEN_ADD : Z := %d.\n"
          "Definition FP_LEN_SUB : Z := %d.\nDefinition FP_LEN_ADD : Z := %d." %
          (int(mi.group(1), 16), int(fp.group(1), 16), int(hdr.group(1)), int(mil.group(1)), int(mil.group(2)),
           int(fpl.group(1)), int(fpl.group(2))), "encode_stun_message integrity/fingerprint literals", STUN)

    # ---- attribute type codes written by append_attribute
    _, _, app = find_fn(src, "append_attribute")
    enc_attr = {}
    for v, c in re.findall(r"StunAttribute::(\w+)\(\w+\)\s*=>\s*append_(?:string_attr|raw_attribute)\(buffer,\s*(0x[0-9A-Fa-f]+),", app):
        enc_attr[v] = int(c, 16)
    for v, c in re.findall(r"StunAttribute::(\w+)\(addr\)\s*=>\s*\{\s*append_xor_address\(buffer,\s*(0x[0-9A-Fa-f]+),\s*addr,\s*tx_id\);", app):
        enc_attr[v] = int(c, 16)
    fixed = {}
    for v, c, ln in re.findall(r"StunAttribute::(\w+)(?:\(\w+\))?\s*=>\s*\{\s*buffer\.extend_from_slice\(&(0x[0-9A-Fa-f]+)u16\.to_be_bytes\(\)\);"
                               r"\s*buffer\.extend_from_slice\(&(\d+)u16\.to_be_bytes\(\)\);", app):
        enc_attr[v] = int(c, 16)
        fixed[v] = int(ln)
    want = ["Username", "Realm", "Nonce", "Software", "RequestedTransport", "Lifetime", "Priority", "IceControlling",
            "IceControlled", "UseCandidate", "XorPeerAddress", "XorMappedAddress", "ChannelNumber", "Data"]
    am = re.search(r"enum\s+StunAttribute\s*\{([^}]*)\}", src)
    if not am:
        raise Untranslatable("enum StunAttribute not found")
    variants = re.findall(r"(?m)^\s*(\w+)(?:\([^)]*\))?\s*,", am.group(1))
    if variants != want:
        raise Untranslatable("enum StunAttribute variants changed: %r" % variants)
    if sorted(enc_attr) != sorted(want):
        raise Untranslatable("append_attribute: could not find the type code of every variant: %r" % sorted(enc_attr))
    for v in want:
        m.raw("Definition ENC_%s : Z := %d." % (v, enc_attr[v]), "append_attribute code of " + v, STUN)
    for v in ["RequestedTransport", "Lifetime", "Priority", "IceControlling", "IceControlled", "UseCandidate", "ChannelNumber"]:
        if v not in fixed:
            raise Untranslatable("append_attribute: literal length of %s not found" % v)
        m.raw("Definition ENCLEN_%s : Z := %d." % (v, fixed[v]), "append_attribute length of " + v, STUN)
    _, _, xa = find_fn(src, "append_xor_address")
    fam = re.findall(r"SocketAddr::(V4|V6)\(\w+\)\s*=>\s*\{\s*buffer\.extend_from_slice\(&typ\.to_be_bytes\(\)\);"
                     r"\s*buffer\.extend_from_slice\(&(\d+)u16\.to_be_bytes\(\)\);\s*buffer\.push\(0\);\s*buffer\.push\((0x[0-9A-Fa-f]+)\);", xa)
    if [f for f, _, _ in fam] != ["V4", "V6"]:
        raise Untranslatable("append_xor_address: family arms not found")
    for f, ln, code in fam:
        m.raw("Definition XORLEN_%s : Z := %s.\nDefinition FAMILY_%s : Z := %d." % (f, ln, f, int(code, 16)),
              "append_xor_address %s length/family" % f, STUN)
    if len(re.findall(r"port\s*\^=\s*\(MAGIC_COOKIE\s*>>\s*16\)\s*as\s*u16\s*;", xa)) != 2:
        raise Untranslatable("append_xor_address: port xor")

    # ---- decoder tables
    _, _, dec = find_fn(src, "decode_stun_message")
    mk = re.search(r"let\s+method\s*=\s*match\s+msg_type\s*&\s*(0x[0-9A-Fa-f]+)\s*\{", dec)
    ck = re.search(r"let\s+class\s*=\s*match\s+msg_type\s*&\s*(0x[0-9A-Fa-f]+)\s*\{", dec)
    if not (mk and ck):
        raise Untranslatable("decode_stun_message: method/class masks not found")
    mend = rs2v.balanced(dec, mk.end() - 1)
    md = re.findall(r"(0x[0-9A-Fa-f]+)\s*=>\s*StunMethod::(\w+)\s*,", dec[mk.end():mend])
    cend = rs2v.balanced(dec, ck.end() - 1)
    cd = re.findall(r"(0x[0-9A-Fa-f]+)\s*=>\s*StunClass::(\w+)\s*,", dec[ck.end():cend])
    if sorted(v for _, v in md) != sorted(methods) or sorted(v for _, v in cd) != sorted(classes):
        raise Untranslatable("decode_stun_message: method/class tables do not cover the enums")
    if "_ => bail!" not in dec[mk.end():mend]:
        raise Untranslatable("decode_stun_message: method match has no bail default")
    m.raw("Definition METHOD_MASK : Z := %d.\nDefinition CLASS_MASK : Z := %d." % (int(mk.group(1), 16), int(ck.group(1), 16)),
          "decode_stun_message masks", STUN)

    def chain(tab, enum):
        out = "None"
        for c, v in reversed(tab):
            out = "if Z.eqb x %d then Some %s_%s else %s" % (int(c, 16), enum, v, out)
        return out
    m.raw("Definition method_of_code (x : Z) : option StunMethod := %s." % chain(md, "StunMethod"), "decode_stun_message method table", STUN)
    m.raw("Definition class_of_code (x : Z) : option StunClass := %s." % chain(cd, "StunClass"), "decode_stun_message class table", STUN)
    # attribute arms: code => { ... <variable> = ... }
    am = re.search(r"match\s+typ\s*\{", dec)
    if not am:
        raise Untranslatable("decode_stun_message: match typ not found")
    aend = rs2v.balanced(dec, am.end() - 1)
    arms = dec[am.end():aend - 1]
    found = {}
    pos = 0
    for mm in re.finditer(r"(0x[0-9A-Fa-f]+)\s*=>\s*\{", arms):
        if mm.start() < pos:
            continue
        e = rs2v.balanced(arms, mm.end() - 1)
        bodytxt = arms[mm.end():e]
        pos = e
        tgt = re.findall(r"\b(xor_mapped_address|xor_relayed_address|xor_peer_address|error_code|realm|nonce|data|lifetime|use_candidate)\s*=\s", bodytxt)
        if len(set(tgt)) != 1:
            raise Untranslatable("decode_stun_message: arm %s assigns %r" % (mm.group(1), tgt))
        if tgt[0] in found:
            raise Untranslatable("decode_stun_message: two arms assign " + tgt[0])
        found[tgt[0]] = int(mm.group(1), 16)
    wantd = ["xor_mapped_address", "xor_relayed_address", "xor_peer_address", "error_code", "realm", "nonce", "data", "lifetime", "use_candidate"]
    if sorted(found) != sorted(wantd):
        raise Untranslatable("decode_stun_message: attribute arms changed: %r" % sorted(found))
    if not re.search(r"_\s*=>\s*\{\s*\}", arms[pos:]):
        raise Untranslatable("decode_stun_message: default arm is not empty")
    for v in wantd:
        m.raw("Definition DEC_%s : Z := %d." % (v, found[v]), "decode_stun_message arm " + v, STUN)
    return m


# ------------------------------------------------------------------------------------ candidate line
def _bytes(t):
    return "[" + "; ".join(str(b) for b in t.encode()) + "]"


def gen_icecandstr():
    """string tables and keywords of IceCandidate::{to_sdp,from_sdp}, IceCandidateType::as_str, TcpType::{as_str,from_str}"""
    m = Module("IceCandStr")
    m.lines.append("From RV Require Import Gen.IcePrio.")
    src = strip_comments(read(ICE))
    types = [v for v, _ in rs2v.find_enum(src, "IceCandidateType")]
    tcps = [v for v, _ in rs2v.find_enum(src, "TcpType")]
    _, _, b = find_fn(src, "as_str", "IceCandidateType")
    ts = re.findall(r'IceCandidateType::(\w+)\s*=>\s*"([^"]*)"', b)
    if sorted(v for v, _ in ts) != sorted(types) or len(ts) != len(types):
        raise Untranslatable("IceCandidateType::as_str does not cover the enum")
    _, _, b = find_fn(src, "as_str", "TcpType")
    ks = re.findall(r'TcpType::(\w+)\s*=>\s*"([^"]*)"', b)
    if sorted(v for v, _ in ks) != sorted(tcps) or len(ks) != len(tcps):
        raise Untranslatable("TcpType::as_str does not cover the enum")
    _, _, b = find_fn(src, "from_str", "TcpType")
    kf = re.findall(r'"([^"]*)"\s*=>\s*Some\(TcpType::(\w+)\)', b)
    if sorted(v for _, v in kf) != sorted(tcps) or not re.search(r"_\s*=>\s*None", b):
        raise Untranslatable("TcpType::from_str table changed")
    _, _, fs = find_fn(src, "from_sdp", "IceCandidate")
    mm = re.search(r"let\s+typ\s*=\s*match\s+typ_str\s*\{", fs)
    if not mm:
        raise Untranslatable("from_sdp: match typ_str not found")
    e = rs2v.balanced(fs, mm.end() - 1)
    tf = re.findall(r'"([^"]*)"\s*=>\s*IceCandidateType::(\w+)', fs[mm.end():e])
    if sorted(v for _, v in tf) != sorted(types) or "_ => bail!" not in fs[mm.end():e]:
        raise Untranslatable("from_sdp: type table changed")
    m.raw("Fixpoint str_eqb (a b : list Z) : bool := match a, b with [], [] => true | x :: a', y :: b' => (x =? y) && str_eqb a' b' | _, _ => false end.",
          "helper", ICE)
    m.raw("Definition cand_type_str (t : IceCandidateType) : list Z := match t with %s end." %
          " ".join("| IceCandidateType_%s => %s" % (v, _bytes(t)) for v, t in ts), "IceCandidateType::as_str", ICE)
    m.raw("Definition tcp_type_str (t : TcpType) : list Z := match t with %s end." %
          " ".join("| TcpType_%s => %s" % (v, _bytes(t)) for v, t in ks), "TcpType::as_str", ICE)

    def chain(tab, enum):
        out = "None"
        for t, v in reversed(tab):
            out = "if str_eqb s %s then Some %s_%s else %s" % (_bytes(t), enum, v, out)
        return out
    m.raw("Definition cand_type_of_str (s : list Z) : option IceCandidateType := %s." % chain(tf, "IceCandidateType"), "from_sdp type table", ICE)
    m.raw("Definition tcp_type_of_str (s : list Z) : option TcpType := %s." % chain(kf, "TcpType"), "TcpType::from_str", ICE)
    # keywords and positions
    _, _, ts_ = find_fn(src, "to_sdp", "IceCandidate")
    for kw in ("typ", "tcptype", "raddr", "rport"):
        if '"%s".into()' % kw not in ts_:
            raise Untranslatable("to_sdp: keyword %s not found" % kw)
    order = [ts_.index(x) for x in ("self.foundation.clone()", "self.component.to_string()", "self.transport.to_ascii_lowercase()",
                                    "self.priority.to_string()", "self.address.ip().to_string()", "self.address.port().to_string()",
                                    '"typ".into()', "self.typ.as_str().into()", '"tcptype".into()', "tcp_type.as_str().into()",
                                    '"raddr".into()', "addr.ip().to_string()", '"rport".into()', "addr.port().to_string()", 'parts.join(" ")')]
    if order != sorted(order):
        raise Untranslatable("to_sdp: field order changed")
    if not re.search(r"if\s+let\s+Some\(addr\)\s*=\s*self\.related_address\s*&&\s*self\.typ\s*!=\s*IceCandidateType::Host", ts_):
        raise Untranslatable("to_sdp: related-address condition changed")
    mp = re.search(r"if\s+parts\.len\(\)\s*<\s*(\d+)\s*\{\s*bail!", fs)
    starts = re.findall(r"let\s+mut\s+i\s*=\s*(\d+)\s*;", fs)
    idx = re.findall(r"parts\[start_idx(?:\s*\+\s*(\d+))?\]", fs)
    if not mp or len(starts) != 2 or len(set(starts)) != 1 or idx != ["", "1", "2", "3", "4", "5", "7"]:
        raise Untranslatable("from_sdp: positions changed (%r %r %r)" % (mp and mp.group(1), starts, idx))
    if not re.search(r"let\s+start_idx\s*=\s*0\s*;", fs):
        raise Untranslatable("from_sdp: start_idx")
    pre = re.search(r'\.trim_start_matches\("([^"]*)"\)', fs)
    tr = re.search(r'let\s+tcp_type\s*=\s*if\s+transport\s*==\s*"([^"]*)"', fs)
    if not pre or not tr:
        raise Untranslatable("from_sdp: prefix / transport test")
    for kw in ("tcptype", "raddr", "rport"):
        if '"%s" =>' % kw not in fs:
            raise Untranslatable("from_sdp: keyword %s not matched" % kw)
    m.raw("Definition KW_typ : list Z := %s.\nDefinition KW_tcptype : list Z := %s.\nDefinition KW_raddr : list Z := %s.\n"
          "Definition KW_rport : list Z := %s.\nDefinition KW_prefix : list Z := %s.\nDefinition KW_tcp : list Z := %s.\n"
          "Definition CAND_MIN_PARTS : Z := %s.\nDefinition CAND_EXT_START : Z := %s." %
          (_bytes("typ"), _bytes("tcptype"), _bytes("raddr"), _bytes("rport"), _bytes(pre.group(1)), _bytes(tr.group(1)),
           mp.group(1), starts[0]), "to_sdp / from_sdp keywords and positions", ICE)
    return m


TURN = "src/transports/ice/turn.rs"


def gen_turnconsts():
    """TURN Allocate request shape (TurnClient::allocate) and the long-term key format (long_term_key)"""
    m = Module("TurnConsts")
    m.add_const(TURN, "DEFAULT_TURN_LIFETIME")
    src = strip_comments(read(TURN))
    _, _, al = find_fn(src, "allocate", "TurnClient")
    base = re.search(r"let\s+attrs\s*=\s*vec!\[\s*StunAttribute::RequestedTransport\((\d+)\),\s*StunAttribute::Lifetime\(DEFAULT_TURN_LIFETIME\),\s*\];", al)
    ext = re.search(r"extended\.push\(StunAttribute::Username\(creds\.username\.clone\(\)\)\);\s*"
                    r"extended\.push\(StunAttribute::Realm\(info\.realm\.clone\(\)\)\);\s*"
                    r"extended\.push\(StunAttribute::Nonce\(info\.nonce\.clone\(\)\)\);\s*"
                    r"let\s+msg\s*=\s*StunMessage::allocate_request\(tx_id,\s*extended\);", al)
    key = "long_term_key(&creds.username, &info.realm, &creds.password)" in al
    enc = re.search(r"message\.encode\(key_option\.as_deref\(\),\s*true\)", al)
    if not (base and ext and key and enc):
        raise Untranslatable("TurnClient::allocate: request shape changed")
    m.raw("Definition TURN_REQUESTED_TRANSPORT : Z := %s." % base.group(1), "TurnClient::allocate REQUESTED-TRANSPORT", TURN)
    _, _, lk = find_fn(src, "long_term_key")
    f = re.search(r'format!\("([^"]*)",\s*username,\s*realm,\s*password\)', lk)
    if not f or f.group(1).count("{}") != 3 or "md5_digest(input.as_bytes())" not in lk:
        raise Untranslatable("long_term_key: format changed")
    parts = f.group(1).split("{}")
    if parts[0] != "" or parts[3] != "" or parts[1] != parts[2] or len(parts[1]) != 1:
        raise Untranslatable("long_term_key: separator shape changed: %r" % parts)
    m.raw("Definition LONG_TERM_KEY_SEP : Z := %d." % ord(parts[1]), "long_term_key separator", TURN)
    # Refresh with LIFETIME=0 (create_destroy_packet_sync) and the STUN probe of the gatherer
    _, _, ds = find_fn(src, "create_destroy_packet_sync", "TurnClient")
    d = re.search(r"let\s+attributes\s*=\s*vec!\[\s*StunAttribute::Lifetime\((\d+)\),\s*StunAttribute::Username\(auth\.username\.clone\(\)\),\s*"
                  r"StunAttribute::Realm\(auth\.realm\.clone\(\)\),\s*StunAttribute::Nonce\(auth\.nonce\.clone\(\)\),\s*\];", ds)
    if not d or "method: StunMethod::Refresh" not in ds or "class: StunClass::Request" not in ds or "msg.encode(Some(&auth.key), true)" not in ds:
        raise Untranslatable("create_destroy_packet_sync: shape changed")
    m.raw("Definition TURN_DESTROY_LIFETIME : Z := %s." % d.group(1), "create_destroy_packet_sync LIFETIME", TURN)
    isrc = strip_comments(read(ICE))
    _, _, ps = find_fn(isrc, "probe_stun")
    sw = re.search(r'StunMessage::binding_request\(tx_id,\s*Some\("([^"]*)"\)\);\s*let\s+bytes\s*=\s*message\.encode\(None,\s*true\)', ps)
    if not sw:
        raise Untranslatable("probe_stun: request shape changed")
    _, _, br = find_fn(strip_comments(read(STUN)), "binding_request", "StunMessage")
    if "StunAttribute::Software(name.to_string())" not in br or "class: StunClass::Request" not in br or "method: StunMethod::Binding" not in br:
        raise Untranslatable("StunMessage::binding_request: shape changed")
    m.raw("Definition PROBE_SOFTWARE : list Z := %s." % _bytes(sw.group(1)), "probe_stun SOFTWARE", ICE)
    # ---- allocate retry bound, channel numbers, request builders, framing
    att = re.search(r"attempt\s*\+=\s*1;\s*if\s+attempt\s*>\s*(\d+)\s*\{\s*bail!", al)
    if not att:
        raise Untranslatable("TurnClient::allocate: attempt bound not found")
    if not re.search(r"nonce_info\s*=\s*Some\(TurnNonce\s*\{\s*realm,\s*nonce\s*\}\);\s*continue;", al):
        raise Untranslatable("TurnClient::allocate: challenge handling changed")
    if "long_term_key(&creds.username, &info.realm, &creds.password)" not in al:
        raise Untranslatable("TurnClient::allocate: long_term_key call changed")
    m.raw("Definition ALLOC_MAX_ATTEMPTS : Z := %s." % att.group(1), "TurnClient::allocate attempt bound", TURN)
    _, _, cn = find_fn(src, "connect", "TurnClient")
    first = re.search(r"next_channel:\s*Mutex::new\((0x[0-9A-Fa-f]+)\)", cn)
    _, _, cbp = find_fn(src, "create_channel_bind_packet", "TurnClient")
    step = re.search(r"let\s+n\s*=\s*\*next;\s*if\s+n\s*>=\s*(0x[0-9A-Fa-f]+)\s*\{\s*\*next\s*=\s*(0x[0-9A-Fa-f]+);\s*\}\s*else\s*\{\s*\*next\s*\+=\s*1;\s*\}\s*n\s*\}", cbp)
    if not first or not step:
        raise Untranslatable("channel number allocation changed")
    m.raw("Definition CHANNEL_FIRST : Z := %d.\nDefinition CHANNEL_WRAP_AT : Z := %d.\nDefinition CHANNEL_WRAP_TO : Z := %d." %
          (int(first.group(1), 16), int(step.group(1), 16), int(step.group(2), 16)), "channel number allocation", TURN)

    def shape(fn, attrs, method, cls="Request"):
        _, _, body = find_fn(src, fn, "TurnClient")
        flat = re.sub(r"\s+", "", body)
        pos = 0
        for a in attrs:
            k = flat.find(a, pos)
            if k < 0:
                raise Untranslatable("%s: attribute %s missing or out of order" % (fn, a))
            pos = k + 1
        if "method:StunMethod::%s" % method not in flat or "class:StunClass::%s" % cls not in flat:
            raise Untranslatable("%s: method/class changed" % fn)
        return flat
    U, R, N = "StunAttribute::Username(auth.username.clone())", "StunAttribute::Realm(auth.realm.clone())", "StunAttribute::Nonce(auth.nonce.clone())"
    f1 = shape("create_permission_packet", [U, R, N, "StunAttribute::XorPeerAddress(peer)"], "CreatePermission")
    f2 = shape("create_channel_bind_packet", ["StunAttribute::ChannelNumber(channel_number)", "StunAttribute::XorPeerAddress(peer)", U, R, N], "ChannelBind")
    for f in (f1, f2):
        if "msg.encode(Some(&auth.key),true)" not in f:
            raise Untranslatable("TURN request builder no longer encodes with the long-term key and fingerprint")
    f3 = shape("send_indication", ["StunAttribute::XorPeerAddress(peer)", "StunAttribute::Data(data.to_vec())"], "Send", "Indication")
    for k, a in enumerate([U, R, N]):
        if ".insert(%d,%s)" % (k, a) not in f3:
            raise Untranslatable("send_indication: authenticated variant changed")
    if "authenticated_msg.encode(Some(&auth.key),true)" not in f3 or "msg.encode(None,false)" not in f3:
        raise Untranslatable("send_indication: encode calls changed")
    _, _, scd = find_fn(src, "send_channel_data", "TurnClient")
    fl = re.sub(r"\s+", "", scd)
    if "packet.extend_from_slice(&channel.to_be_bytes());packet.extend_from_slice(&(data.len()asu16).to_be_bytes());packet.extend_from_slice(data);self.send(&packet).await" not in fl:
        raise Untranslatable("send_channel_data: framing changed")
    _, _, snd = find_fn(src, "send", "TurnClient")
    fl = re.sub(r"\s+", "", snd)
    if "socket.send_to(data,*server).await?;" not in fl or \
       "frame.extend_from_slice(&(data.len()asu16).to_be_bytes());frame.extend_from_slice(data);write.lock().await.write_all(&frame).await?;" not in fl:
        raise Untranslatable("TurnClient::send: UDP / TCP framing changed")
    m.raw("Definition TURN_TCP_PREFIX_LEN : Z := 2.", "TurnClient::send TCP framing (16-bit length prefix)", TURN)
    _, _, md = find_fn(src, "md5_digest")
    if "Md5::new()" not in md:
        raise Untranslatable("md5_digest does not use Md5")
    return m


MODULES = {"IcePrio": gen_iceprio, "StunCodes": gen_stuncodes, "IceCandStr": gen_icecandstr, "TurnConsts": gen_turnconsts}
