"""rs2v plugin for C17: Gen/LifecycleGen.v

Regenerated from /repo on every run (regex-anchored on comment-stripped, whitespace-normalised
source; anything that no longer has a recognisable shape raises Untranslatable):

  * the state enumerations the application observes and the lower-layer ones the state task reads:
    PeerConnectionState, IceConnectionState, SignalingState (src/peer_connection.rs),
    DataChannelState with discriminants (src/transports/datachannel.rs), SctpState
    (src/transports/sctp.rs), IceTransportState (src/transports/ice/mod.rs),
    DisconnectReason and DtlsState (variant names; payloads dropped)
  * the SCTP close-reason strings: every literal `sctp.rs` can store in `close_reason`
    (`sctp_set_reasons`) and the string -> DisconnectReason table of BOTH
    `propagate_sctp_close_reason` and `close_with_reason` (they must be identical) as
    `sctp_reason_map`
  * the guards the lifecycle theorems rest on, each as a boolean the model branches on (a guard that
    is removed or re-spelled flips the boolean, the model then behaves like the new code and the
    proofs about it stop checking):
      close_guard_present / close_guard_on_signaling   early return of close_with_reason
      reason_writes_guarded                            every disconnect_reason write is `is_none`-guarded
      state_task_writes_guarded                        state-task peer/ICE state writes never overwrite Closed
      sctp_death_leaves_connected                      propagate_sctp_close_reason: Connected -> Disconnected
      guard_close_if_old_not_closed                    SctpCleanupGuard swap-to-Closed test
      guard_wakes_senders / close_wakes_senders        who wakes the flow-control loop
      sender_registers_before_check / sender_checks_closed   the wait loop of send_data_raw
      runner_exit_is_error                             start_dtls when the DTLS runner exited mid-handshake
      close_closes_channels                            close_with_reason closes every data channel
      cdc_closed_is_noop / cdc_close_if_old_not_closed close_data_channel
      state_task_weak_while_connected                  the state task drops its strong references
      recv_ends_on_close                               PeerConnection::recv
      shutdown_complete_closes                         CT_SHUTDOWN_COMPLETE handling
      dc_listener_holds_weak                           the DataChannel listener never caches a strong PeerConnectionInner
  * shape checks without a boolean (Untranslatable when they fail): the steps of close_with_reason, Drop, close(),
    the ICE Failed/Closed arms, the DTLS closed/failed and grace-expiry branches, that close_with_reason drains and
    stops every secondary (non-BUNDLE) media / ICE transport map, and that spawn_transport_loops
    builds its LoopsGuard outside the returned future (dropping that future un-polled must still abort the loops)
"""
import re
import sys

_main = sys.modules.get("__main__")
if _main is not None and hasattr(_main, "Untranslatable") and hasattr(_main, "Module"):
    rs2v = _main
else:
    import rs2v

Module = rs2v.Module
Untranslatable = rs2v.Untranslatable

PC = "src/peer_connection.rs"
SCTP = "src/transports/sctp.rs"
DC = "src/transports/datachannel.rs"
ICE = "src/transports/ice/mod.rs"
DTLS = "src/transports/dtls/mod.rs"


def norm(s):
    return re.sub(r"\s+", " ", s).strip()


def nontest(src):
    """cut the `#[cfg(test)] mod tests` tail"""
    i = src.find("#[cfg(test)]\nmod tests")
    return src if i < 0 else src[:i]


def variants_with_payload(src, name):
    m = re.search(r"enum\s+%s\s*\{" % re.escape(name), src)
    if not m:
        raise Untranslatable("enum %s not found" % name)
    end = rs2v.balanced(src, m.end() - 1)
    body = re.sub(r"#\[[^\]]*\]", "", src[m.end():end - 1])
    out = []
    depth = 0
    cur = ""
    for ch in body:
        if ch in "([{":
            depth += 1
        elif ch in ")]}":
            depth -= 1
        if ch == "," and depth == 0:
            out.append(cur)
            cur = ""
        else:
            cur += ch
    out.append(cur)
    vs = []
    for part in out:
        part = part.strip()
        if not part:
            continue
        mm = re.match(r"^([A-Za-z0-9_]+)\s*(\(.*\))?$", part, re.S)
        if not mm:
            raise Untranslatable("enum %s: unexpected variant %r" % (name, part))
        vs.append(mm.group(1))
    if not vs:
        raise Untranslatable("enum %s has no variants" % name)
    return vs


def emit_enum(m, path, name, vs):
    m.lines.append("Inductive %s : Set := %s." % (name, " | ".join("%s_%s" % (name, v) for v in vs)))
    m.lines.append("Definition %s_all : list %s := [%s]." % (name, name, "; ".join("%s_%s" % (name, v) for v in vs)))
    m.lines.append("Definition %s_eqb (a b : %s) : bool := match a, b with %s | _, _ => false end." % (
        name, name, " ".join("| %s_%s, %s_%s => true" % (name, v, name, v) for v in vs)))
    m.lines.append("Definition %s_idx (a : %s) : Z := match a with %s end." % (
        name, name, " ".join("| %s_%s => %d" % (name, v, i) for i, v in enumerate(vs))))
    m.manifest.append({"item": "enum " + name, "file": path})


def reason_table(body, where):
    """match arms `"A" | "B" => Some(DisconnectReason::X(...)) / None, other => ...` -> [(strings, variant|None)], other"""
    mm = re.search(r"match r\.as_str\(\) \{(.*?)\bother => Some\(DisconnectReason::(\w+)\(other\.to_string\(\)\)\),? \}", body)
    if not mm:
        raise Untranslatable("%s: close-reason match block not found" % where)
    arms_src, other = mm.group(1), mm.group(2)
    arms = []
    pos = 0
    arm_re = re.compile(r'\s*((?:"[A-Z_]+"\s*\|\s*)*"[A-Z_]+")\s*=>\s*(\{\s*)?(None|Some\(\s*DisconnectReason::(\w+)(?:\((?:[^()]|\([^()]*\))*\))?\s*,?\s*\))\s*(\})?\s*,?')
    while pos < len(arms_src.rstrip()):
        am = arm_re.match(arms_src, pos)
        if not am:
            raise Untranslatable("%s: unexpected close-reason arm near `%s`" % (where, arms_src[pos:pos + 60]))
        strings = re.findall(r'"([A-Z_]+)"', am.group(1))
        arms.append((tuple(strings), am.group(4) if am.group(3) != "None" else None))
        pos = am.end()
    return arms, other


def flag(m, name, value, item, path):
    m.raw("Definition %s : bool := %s." % (name, "true" if value else "false"), item, path)


def gen_lifecycle():
    m = Module("LifecycleGen")
    pc_raw = nontest(rs2v.read(PC))
    pc = rs2v.strip_comments(pc_raw)
    sctp = rs2v.strip_comments(nontest(rs2v.read(SCTP)))
    # ---------------------------------------------------------------- enumerations
    for name in ("PeerConnectionState", "IceConnectionState", "SignalingState"):
        m.add_enum(PC, name)
        vs = [v for v, _ in rs2v.find_enum(pc, name)]
        m.lines.append("Definition %s_idx (a : %s) : Z := match a with %s end." % (
            name, name, " ".join("| %s_%s => %d" % (name, v, i) for i, v in enumerate(vs))))
    m.add_enum(DC, "DataChannelState")
    m.add_enum(SCTP, "SctpState")
    m.add_enum(ICE, "IceTransportState")
    emit_enum(m, PC, "DisconnectReason", variants_with_payload(pc, "DisconnectReason"))
    emit_enum(m, DTLS, "DtlsState", variants_with_payload(rs2v.strip_comments(rs2v.read(DTLS)), "DtlsState"))
    # the model names these variants; fail loudly when one disappears
    need = {
        "PeerConnectionState": ["New", "Connecting", "Connected", "Disconnected", "Failed", "Closed"],
        "IceConnectionState": ["New", "Checking", "Connected", "Completed", "Failed", "Disconnected", "Closed"],
        "SignalingState": ["Stable", "HaveLocalOffer", "HaveRemoteOffer", "Closed"],
        "DisconnectReason": ["LocalClose", "Dropped", "IceFailed", "IceDisconnected", "DtlsFailed", "DtlsClosed",
                             "SctpHeartbeatTimeout", "SctpPeerDead", "SctpRemoteAbort", "SctpRemoteShutdown",
                             "TransportStartFailed", "Unknown"],
    }
    for en, vs in need.items():
        have = variants_with_payload(pc, en)
        for v in vs:
            if v not in have:
                raise Untranslatable("enum %s lost variant %s" % (en, v))
    dcs = dict(rs2v.find_enum(rs2v.strip_comments(rs2v.read(DC)), "DataChannelState"))
    if [dcs.get(k) for k in ("Connecting", "Open", "Closing", "Closed")] != ["0", "1", "2", "3"]:
        raise Untranslatable("DataChannelState discriminants changed: %r" % dcs)

    # ---------------------------------------------------------------- close-reason strings
    _, _, prop_body = rs2v.find_fn(pc, "propagate_sctp_close_reason")
    _, _, close_body = rs2v.find_fn(pc, "close_with_reason")
    prop_n, close_n = norm(prop_body), norm(close_body)
    t1, o1 = reason_table(prop_n, "propagate_sctp_close_reason")
    t2, o2 = reason_table(close_n, "close_with_reason")
    if t1 != t2 or o1 != o2:
        raise Untranslatable("close-reason tables of propagate_sctp_close_reason and close_with_reason differ")
    set_sites = re.findall(r'\*self\.close_reason\.lock\(\) = Some\((?:"([A-Z_]+)"|(reason))\.into\(\)\);', sctp)
    lits = [a for a, b in set_sites if a]
    if any(b for a, b in set_sites):
        mm = re.search(r'let reason = match state \{ DtlsState::Failed => "([A-Z_]+)", _ => "([A-Z_]+)", \};', norm(sctp))
        if not mm:
            raise Untranslatable("sctp.rs: computed close reason (DTLS failed/closed) changed shape")
        lits += [mm.group(1), mm.group(2)]
    if len(re.findall(r"close_reason\.lock\(\) = ", sctp)) != len(set_sites):
        raise Untranslatable("sctp.rs: a close_reason assignment has an unexpected shape")
    table_strings = [s for ss, _ in t1 for s in ss]
    all_strings = []
    for s in table_strings + sorted(set(lits)):
        if s not in all_strings:
            all_strings.append(s)
    m.lines.append("Inductive SctpCloseReason : Set := %s." % " | ".join("CR_" + s for s in all_strings))
    m.lines.append("Definition SctpCloseReason_all : list SctpCloseReason := [%s]." % "; ".join("CR_" + s for s in all_strings))
    m.lines.append("Definition SctpCloseReason_eqb (a b : SctpCloseReason) : bool := match a, b with %s | _, _ => false end." %
                   " ".join("| CR_%s, CR_%s => true" % (s, s) for s in all_strings))
    arms = []
    for ss, v in t1:
        for s in ss:
            arms.append("| CR_%s => %s" % (s, "Some DisconnectReason_" + v if v else "None"))
    for s in all_strings:
        if s not in table_strings:
            arms.append("| CR_%s => Some DisconnectReason_%s" % (s, o1))
    m.raw("Definition sctp_reason_map (c : SctpCloseReason) : option DisconnectReason := match c with %s end." % " ".join(arms),
          "close-reason table of propagate_sctp_close_reason / close_with_reason", PC)
    m.raw("Definition sctp_set_reasons : list SctpCloseReason := [%s]." % "; ".join("CR_" + s for s in sorted(set(lits))),
          "close_reason literals assigned in sctp.rs", SCTP)
    for s in ("LOCAL_CLOSE", "REMOTE_ABORT", "REMOTE_SHUTDOWN", "DTLS_FAILED", "DTLS_CLOSED", "HEARTBEAT_TIMEOUT", "INIT_TIMEOUT"):
        if s not in all_strings:
            raise Untranslatable("close reason %s no longer exists" % s)
    # which handler stores which reason and closes the association
    ns = norm(sctp)
    for ct, reason in (("CT_ABORT", "REMOTE_ABORT"), ("CT_SHUTDOWN_ACK", "REMOTE_SHUTDOWN")):
        if not re.search(r'%s => \{ .*?\*self\.close_reason\.lock\(\) = Some\("%s"\.into\(\)\); self\.set_state\(SctpState::Closed\); \}' % (ct, reason), ns):
            raise Untranslatable("sctp.rs: %s handler no longer stores %s and closes" % (ct, reason))
    flag(m, "shutdown_complete_closes",
         re.search(r'CT_SHUTDOWN_COMPLETE => \{ .*?\*self\.close_reason\.lock\(\) = Some\("REMOTE_SHUTDOWN"\.into\(\)\); self\.set_state\(SctpState::Closed\); \}', ns) is not None,
         "CT_SHUTDOWN_COMPLETE handler", SCTP)
    if not re.search(r'CT_SHUTDOWN => \{ [^{}]*self\.send_chunk\(CT_SHUTDOWN_ACK, 0, Bytes::new\(\), tag\) \.await\?; \}', ns):
        raise Untranslatable("sctp.rs: CT_SHUTDOWN handler changed (expected: answer SHUTDOWN ACK, stay connected)")

    # ---------------------------------------------------------------- close_with_reason guards
    g_sig = re.search(r"fn close_with_reason\(&self, reason: DisconnectReason\) \{ if \*self\.signaling_state\.borrow\(\) == SignalingState::Closed \{ return; \}", norm(pc))
    g_peer = re.search(r"fn close_with_reason\(&self, reason: DisconnectReason\) \{ if \*self\.peer_state\.borrow\(\) == PeerConnectionState::Closed \{ return; \}", norm(pc))
    flag(m, "close_guard_present", bool(g_sig or g_peer), "close_with_reason early return", PC)
    flag(m, "close_guard_on_signaling", bool(g_sig), "close_with_reason early return tests the signaling state", PC)
    for pat, what in ((r"let _ = self\.signaling_state\.send\(SignalingState::Closed\);", "signaling Closed"),
                      (r"let _ = self\.peer_state\.send\(PeerConnectionState::Closed\);", "peer Closed"),
                      (r"let _ = self\.ice_connection_state\.send\(IceConnectionState::Closed\);", "ice Closed"),
                      (r"if let Some\(sctp\) = self\.sctp_transport\.lock\(\)\.take\(\) \{ sctp\.close\(\); \}", "sctp take+close"),
                      (r"if let Some\(dtls\) = self\.dtls_transport\.lock\(\)\.as_ref\(\) \{ dtls\.close\(\); \}", "dtls close"),
                      (r"self\.ice_transport\.stop\(\);", "ice stop")):
        if not re.search(pat, close_n):
            raise Untranslatable("close_with_reason: step `%s` not found" % what)
    # every map of secondary (non-BUNDLE) transports is drained, and every ICE transport taken out of it is stopped
    # (IceTransport has no Drop: one that is merely dropped from the map keeps its runner task and sockets)
    if not re.search(r"let extra_transports = self \.rtp_media_transports \.lock\(\) \.drain\(\) \.map\(\|\(_, transport\)\| transport\) \.collect::<Vec<_>>\(\); "
                     r"for transport in extra_transports \{ let count = transport\.clear_listeners\(\);", close_n):
        raise Untranslatable("close_with_reason: the secondary RTP transports are no longer all drained and cleared")
    if not re.search(r"self\.ice_transport\.stop\(\); let extra_ice = self \.rtp_media_ice_transports \.lock\(\) \.drain\(\) \.map\(\|\(_, transport\)\| transport\) \.collect::<Vec<_>>\(\); "
                     r"for transport in extra_ice \{ transport\.stop\(\); \}", close_n):
        raise Untranslatable("close_with_reason: not every secondary ICE transport is drained and stopped any more")
    m.manifest.append({"item": "close_with_reason drains and stops every secondary media / ICE transport", "file": PC})
    flag(m, "close_closes_channels",
         re.search(r"let channels = self\.data_channels\.lock\(\); for weak_dc in channels\.iter\(\) \{ if let Some\(dc\) = weak_dc\.upgrade\(\) \{ "
                   r"let old_state = dc \.state \.swap\(DataChannelState::Closed as usize, Ordering::SeqCst\); "
                   r"if old_state != DataChannelState::Closed as usize \{ dc\.send_event\(DataChannelEvent::Close\); \} dc\.close_channel\(\); \} \}", close_n) is not None,
         "close_with_reason closes every data channel", PC)
    if not re.search(r"let final_reason = if reason_guard\.is_none\(\) \{ .*? let r = sctp_reason\.unwrap_or\(reason\); let _ = self\.disconnect_reason\.send\(Some\(r\.clone\(\)\)\); r \} else \{ reason_guard\.clone\(\)\.unwrap\(\) \};", close_n):
        raise Untranslatable("close_with_reason: reason selection changed shape")
    _, _, drop_body = rs2v.find_fn(pc, "drop", "Drop for PeerConnectionInner")
    if not re.search(r"self\.close_with_reason\(DisconnectReason::Dropped\); self\.abort_tracked_tasks\(\);", norm(drop_body)):
        raise Untranslatable("Drop for PeerConnectionInner changed shape")
    if not re.search(r"pub fn close\(&self\) \{ self\.inner\.close_with_reason\(DisconnectReason::LocalClose\); \}", norm(pc)):
        raise Untranslatable("PeerConnection::close changed shape")

    # ---------------------------------------------------------------- reason writes
    npc = norm(pc)
    raw_sends = len(re.findall(r"disconnect_reason\.send\(", npc))
    guarded = len(re.findall(r"disconnect_reason\.send_if_modified\(\|cur\| \{? ?if cur\.is_none\(\) \{ \*cur = Some\(", npc))
    all_mod = len(re.findall(r"disconnect_reason\.send_if_modified\(", npc))
    flag(m, "reason_writes_guarded", raw_sends == 1 and guarded == all_mod and all_mod >= 8,
         "every disconnect_reason write is guarded by is_none (1 send in close_with_reason under is_none, %d send_if_modified)" % all_mod, PC)

    # ---------------------------------------------------------------- state-task writes
    a = npc.find("async fn run_rtp_direct_loop(")
    b = npc.find("fn is_ice_failed_or_closed(")
    if a < 0 or b < 0 or b < a:
        raise Untranslatable("state-task region (run_rtp_direct_loop .. is_ice_failed_or_closed) not found")
    region = npc[a:b]
    raw_peer = len(re.findall(r"peer_state\.send\(", region))
    raw_ice = len(re.findall(r"ice_connection_state_tx\.send\(", region))
    helper = re.search(r"fn report_peer_state\(inner: &PeerConnectionInner, state: PeerConnectionState\) \{ inner\.peer_state\.send_if_modified\(\|cur\| \{ "
                       r"if \*cur == PeerConnectionState::Closed \{ false \} else \{ \*cur = state; true \} \}\); \}", npc)
    helper_ice = re.search(r"fn report_ice_state\(tx: &watch::Sender<IceConnectionState>, state: IceConnectionState\) \{ tx\.send_if_modified\(\|cur\| \{ "
                           r"if \*cur == IceConnectionState::Closed \{ false \} else \{ \*cur = state; true \} \}\); \}", npc)
    flag(m, "state_task_writes_guarded", raw_peer == 0 and raw_ice == 0 and bool(helper) and bool(helper_ice) and "report_peer_state(" in region,
         "state-task peer/ICE writes go through report_peer_state/report_ice_state (never overwrite Closed)", PC)
    flag(m, "sctp_death_leaves_connected",
         re.search(r"inner\.peer_state\.send_if_modified\(\|cur\| \{ if \*cur == PeerConnectionState::Connected \{ \*cur = PeerConnectionState::Disconnected; true \} else \{ false \} \}\);", prop_n) is not None,
         "propagate_sctp_close_reason moves Connected to Disconnected", PC)
    # what the loops do on each lower-layer observation (shape checks; the model mirrors them)
    _, _, hcs = rs2v.find_fn(pc, "handle_connected_state")
    hcs = norm(hcs)
    for pat, what in (
        (r"let reason = if state == crate::transports::dtls::DtlsState::Failed \{ DisconnectReason::DtlsFailed \} else \{ DisconnectReason::DtlsClosed \};", "DTLS closed/failed reason"),
        (r"report_peer_state\(&inner, PeerConnectionState::Disconnected\); report_ice_state\(ice_connection_state_tx, IceConnectionState::Disconnected\); return false;", "DTLS closed/failed outcome"),
        (r"\*cur = Some\(DisconnectReason::IceDisconnected\);", "grace expiry reason"),
        (r"if let Some\(sctp\) = inner\.sctp_transport\.lock\(\)\.as_ref\(\) \{ sctp\.close\(\); \}", "grace expiry closes SCTP"),
        (r"\*cur = Some\(DisconnectReason::DtlsFailed\);", "start_dtls error reason"),
    ):
        if not re.search(pat, hcs) and not re.search(pat.replace("report_peer_state\\(&inner, ", "let _ = inner\\.peer_state\\.send\\(").replace("report_ice_state\\(ice_connection_state_tx, ", "let _ = ice_connection_state_tx\\.send\\("), hcs):
            raise Untranslatable("handle_connected_state: `%s` changed shape" % what)
    _, _, loop_body = rs2v.find_fn(pc, "run_ice_dtls_loop")
    lb = norm(loop_body)
    for st, reason, peer in (("Failed", "IceFailed", "Failed"), ("Closed", "IceDisconnected", "Closed")):
        if not re.search(r"crate::transports::ice::IceTransportState::%s => \{ if let Some\(inner\) = inner_weak\.upgrade\(\) \{ let _ = inner\.disconnect_reason\.send_if_modified\(\|cur\| \{ if cur\.is_none\(\) \{ \*cur = Some\(DisconnectReason::%s\); true \} else \{ false \} \}\); (?:report_peer_state\(&inner, |let _ = inner\.peer_state\.send\()PeerConnectionState::%s\); \} return; \}" % (st, reason, peer), lb):
            raise Untranslatable("run_ice_dtls_loop: ICE %s arm changed shape" % st)
    flag(m, "state_task_weak_while_connected",
         len(re.findall(r"drop\(pc_temp\); drop\(inner\);", npc)) == 2,
         "handle_connected_state(_no_dtls) drop their strong references before the connected loop", PC)
    # the model's leave_conn / Drop assume that dropping the `rtcp_loop` future aborts the transport loops, also
    # when that future was never polled: the LoopsGuard must be built outside the async block
    if "fn spawn_transport_loops(" not in npc:
        raise Untranslatable("fn spawn_transport_loops not found")
    if not re.search(r"handles\.push\(handle\); \} let guard = LoopsGuard\(handles\); Box::pin\(async move \{ let _guard = guard; done\.notified\(\)\.await; \}\) \}", npc):
        raise Untranslatable("spawn_transport_loops: the LoopsGuard is no longer built before (outside) the returned future")
    m.manifest.append({"item": "spawn_transport_loops builds its LoopsGuard eagerly", "file": PC})
    if not re.search(r"impl Drop for LoopsGuard \{ fn drop\(&mut self\) \{ for handle in self\.0\.drain\(\.\.\) \{ handle\.abort\(\); \} \} \}", npc):
        raise Untranslatable("LoopsGuard::drop no longer aborts every transport loop")
    # the DataChannel listener (a transport loop owned by the connection) upgrades its weak reference for each
    # announcement and lets the strong one go again: it must never keep the connection alive
    mm = re.search(r"let dc_listener = async move \{(.*?)\}; let mut dc_listener:", npc)
    if not mm:
        raise Untranslatable("start_dtls: the DataChannel listener loop was not found")
    lst = mm.group(1).strip()
    flag(m, "dc_listener_holds_weak",
         re.fullmatch(r"while let Some\(dc\) = dc_rx\.recv\(\)\.await \{ if let Some\(inner\) = inner_weak_dc\.upgrade\(\) \{ "
                      r"let _ = inner\.event_tx\.send\(PeerConnectionEvent::DataChannel\(dc\)\); \} else \{ break; \} \}", lst) is not None
         and re.search(r"let inner_weak_dc = inner_weak\.clone\(\);", npc) is not None,
         "DataChannel listener holds only a weak reference to the connection", PC)
    _, _, sd = rs2v.find_fn(pc, "start_dtls")
    flag(m, "runner_exit_is_error",
         re.search(r"if dtls_runner_done \{ return Err\(RtcError::Internal\( \"DTLS transport closed before completing handshake\"\.into\(\), \)\); \}", norm(sd)) is not None,
         "start_dtls: runner exited without a terminal state => Err", PC)
    _, _, rv = rs2v.find_fn(pc, "recv", "PeerConnection")
    flag(m, "recv_ends_on_close",
         re.search(r"if \*signaling_rx\.borrow_and_update\(\) == SignalingState::Closed \{ return rx\.try_recv\(\)\.ok\(\); \}", norm(rv)) is not None,
         "PeerConnection::recv ends once signaling is Closed", PC)

    # ---------------------------------------------------------------- SCTP cleanup guard, close, sender loop
    gsrc = norm(rs2v.strip_comments(re.search(r"impl<'a> Drop for SctpCleanupGuard<'a> \{.*?\n\}\n", rs2v.read(SCTP), re.S).group(0)))
    if not re.search(r"\*self\.inner\.state\.lock\(\) = SctpState::Closed;", gsrc):
        raise Untranslatable("SctpCleanupGuard::drop no longer sets the state to Closed")
    if not re.search(r"let old_state = dc \.state \.swap\(DataChannelState::Closed as usize, Ordering::SeqCst\);", gsrc):
        raise Untranslatable("SctpCleanupGuard::drop no longer swaps channel states to Closed")
    flag(m, "guard_close_if_old_not_closed",
         re.search(r"if old_state != DataChannelState::Closed as usize \{ dc\.send_event\(DataChannelEvent::Close\); dc\.close_channel\(\); \}", gsrc) is not None,
         "SctpCleanupGuard: Close only when the swapped-out state was not Closed", SCTP)
    if "dc.send_event(DataChannelEvent::Close);" not in gsrc:
        raise Untranslatable("SctpCleanupGuard::drop no longer announces Close")
    flag(m, "guard_wakes_senders", "self.inner.flow_control_notify.notify_waiters();" in gsrc,
         "SctpCleanupGuard wakes the flow-control loop", SCTP)
    mm = re.search(r"pub fn close\(&self\) \{(.*?)\} \} impl Drop for SctpTransport", ns)
    if not mm:
        raise Untranslatable("SctpTransport::close not found")
    cl = mm.group(1)
    if "*self.inner.state.lock() = SctpState::Closed;" not in cl or "self.close_tx.notify_one();" not in cl:
        raise Untranslatable("SctpTransport::close changed shape")
    flag(m, "close_wakes_senders", "self.inner.flow_control_notify.notify_waiters();" in cl, "SctpTransport::close wakes the flow-control loop", SCTP)
    mm = re.search(r"loop \{ (let notified = self\.flow_control_notify\.notified\(\); )?(if \*self\.state\.lock\(\) == SctpState::Closed \{ return Err\(anyhow::anyhow!\(\"sctp association closed\"\)\); \} )?"
                   r"let flight = self\.flight_size\.load\(Ordering::Relaxed\); let queued = self\.queued_bytes\.load\(Ordering::Relaxed\); "
                   r"if self\.max_buffered_amount == 0 \|\| flight \+ queued <= self\.max_buffered_amount \{ break; \} "
                   r"(notified\.await;|self\.flow_control_notify\.notified\(\)\.await;) \}", ns)
    if not mm:
        raise Untranslatable("send_data_raw: flow-control wait loop changed shape")
    flag(m, "sender_registers_before_check", bool(mm.group(1)) and mm.group(3) == "notified.await;", "wait loop registers its Notified before the state check", SCTP)
    flag(m, "sender_checks_closed", bool(mm.group(2)), "wait loop returns an error once the state is Closed", SCTP)
    # close_data_channel
    _, _, cdc = rs2v.find_fn(sctp, "close_data_channel", "SctpInner")
    cdc = norm(cdc)
    flag(m, "cdc_closed_is_noop",
         re.search(r"if dc\.state\.load\(Ordering::SeqCst\) == DataChannelState::Closed as usize \{ return Ok\(\(\)\); \} dc\.state \.store\(DataChannelState::Closing as usize, Ordering::SeqCst\);", cdc) is not None,
         "close_data_channel on a closed channel is a no-op", SCTP)
    flag(m, "cdc_close_if_old_not_closed",
         re.search(r"let old_state = dc \.state \.swap\(DataChannelState::Closed as usize, Ordering::SeqCst\); if old_state != DataChannelState::Closed as usize \{ dc\.send_event\(DataChannelEvent::Close\); \}", cdc) is not None,
         "close_data_channel announces Close only on a transition to Closed", SCTP)
    # DataChannel::send_event / close_channel (the event stream can be ended)
    dcs_src = norm(rs2v.strip_comments(rs2v.read(DC)))
    if not re.search(r"pub\(crate\) fn send_event\(&self, event: DataChannelEvent\) \{ if let Some\(tx\) = &\*self\.tx\.lock\(\) \{ let _ = tx\.send\(event\); \} \}", dcs_src) or \
       not re.search(r"pub\(crate\) fn close_channel\(&self\) \{ \*self\.tx\.lock\(\) = None; \}", dcs_src):
        raise Untranslatable("DataChannel::send_event / close_channel changed shape")
    return m


MODULES = {"LifecycleGen": gen_lifecycle}
