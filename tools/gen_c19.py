"""rs2v plugin for C19: Gen/RtpDemux.v and Gen/RtpBridge.v

Translated from /repo/src/transports/rtp.rs on every run (regex-anchored on whitespace-normalised
source, comments stripped; anything that no longer has the expected shape raises Untranslatable):

Gen/RtpDemux.v
  * EXT_ID_NONE (the "extension id not configured" sentinel of the AtomicU8 fields)
  * the receiver selection block of `RtpTransport::receive` (`let listener = { ... selected };`):
    the ORDER of the five lookups (by_rid / by_mid / by_ssrc / unique_by_pt / single_provisional)
    and, per lookup, whether a hit sets `bind_ssrc` (`selected.is_some()`) or not (`false`), as
    `demux_stages : list (stage * bool)`.  Model/Demux.v folds over this list, so re-ordering two
    lookups or letting the provisional fallback bind an SSRC changes what the theorems are about.
  * whether the MID guard is present (`demux_mid_guard`) and which stages precede
    `let by_extension = selected.is_some();` (`demux_ext_stages`), with the guard statement and
    `ListenerRegistry::registered_for_other_mid` matched verbatim.
  * that a bind goes through `bind_ssrc_route(ssrc, tx.clone())` guarded by `bind_ssrc`, and that a
    closed channel is answered by `by_ssrc.remove(&ssrc)` + `remove_sender(&tx)` (shape check only).

Gen/RtpBridge.v
  * the timestamp branch of `RewriteBridge::rewrite_packet`: the "backward" bound (`delta < 0x8000_0000`),
    the discontinuity threshold (`delta > 900_000`), the re-base step (`.wrapping_add(3000)`), with the
    whole statement shape checked verbatim.
  * the sequence step (`next_sequence_number.wrapping_add(1)`).
  * shape checks of the relay path `try_bridge_rewrite_rtp` (target chosen from the original payload
    type before the rewrite; protect with the target's session / drop when SRTP is required without
    one / marshal otherwise) and of the MID stamping call (`set_extension(ext_id, mid.as_bytes())`,
    result ignored, only when extensions are not stripped).  set_extension itself is C15's model.
"""
import re
import sys

_main = sys.modules.get("__main__")
if _main is not None and hasattr(_main, "Untranslatable") and hasattr(_main, "Module"):
    rs2v = _main            # rs2v.py run as a script: use ITS exception class so failures are recorded
else:
    import rs2v             # imported as a library

Module = rs2v.Module
Untranslatable = rs2v.Untranslatable

PATH = "src/transports/rtp.rs"
RTP = "src/rtp.rs"


def norm(s):
    return re.sub(r"\s+", " ", s).strip()


def lit(s):
    v = rs2v.parse_int(s)
    return v[0] if isinstance(v, tuple) else v


STAGES = [
    ("StRid", r"listeners\.by_rid\.get\(rid_str\)\.cloned\(\)"),
    ("StMid", r"listeners\.by_mid\(mid_str\)"),
    ("StSsrc", r"listeners\.by_ssrc\.get\(&ssrc\)\.cloned\(\)"),
    ("StPt", r"listeners\.unique_by_pt\(pt\)"),
    ("StProv", r"listeners\.single_provisional\(\)"),
]


def gen_demux():
    m = Module("RtpDemux")
    m.add_const(PATH, "EXT_ID_NONE")
    src = rs2v.strip_comments(rs2v.read(PATH))
    _, _, body = rs2v.find_fn(src, "receive", "PacketReceiver for RtpTransport")
    body = norm(body)
    mm = re.search(r"let listener = \{ let mut listeners = self\.listeners\.lock\(\); let mut selected = None; "
                   r"let mut bind_ssrc = false; (.*?) selected \};", body)
    if not mm:
        raise Untranslatable("RtpTransport::receive: selection block `let listener = { ... selected };` not found")
    block = mm.group(1)
    # the block must be a sequence of `if <guard> { selected = <lookup>; bind_ssrc = <flag>; }` followed by the bind
    stage_re = re.compile(r"if (?P<guard>[^{}]*?) \{ selected = (?P<lookup>[^;]+); bind_ssrc = (?P<flag>[^;]+); \}")
    pos = 0
    found = []
    ext_count = None     # number of stages in front of `let by_extension = selected.is_some();`
    EXT_MARK = "let by_extension = selected.is_some(); "
    while True:
        if block.startswith(EXT_MARK, pos):
            if ext_count is not None:
                raise Untranslatable("RtpTransport::receive: `by_extension` assigned twice")
            ext_count = len(found)
            pos += len(EXT_MARK)
            continue
        sm = stage_re.match(block, pos)
        if not sm or sm.group("lookup") == "None":
            break
        found.append((sm.group("guard"), sm.group("lookup"), sm.group("flag")))
        pos = sm.end()
        while pos < len(block) and block[pos] == " ":
            pos += 1
    tail = block[pos:]
    # optional MID guard: a non-extension hit on a listener registered for another MID is dropped
    GUARD = ("if !by_extension && let Some(mid) = &mid_bytes && let Ok(mid_str) = std::str::from_utf8(mid) "
             "&& let Some(tx) = selected.as_ref() && listeners.registered_for_other_mid(tx, mid_str) "
             "{ selected = None; bind_ssrc = false; } ")
    mid_guard = tail.startswith(GUARD)
    if mid_guard:
        tail = tail[len(GUARD):]
        if ext_count is None:
            raise Untranslatable("RtpTransport::receive: MID guard without `by_extension`")
        fm = re.search(r"fn registered_for_other_mid\s*\(\s*&self,\s*tx: &mpsc::Sender<\(RtpPacket, SocketAddr\)>,\s*mid: &str,?\s*\)\s*->\s*bool\s*\{", src)
        if not fm:
            raise Untranslatable("ListenerRegistry::registered_for_other_mid not found / signature changed")
        rsrc = norm(src[fm.end() - 1:rs2v.balanced(src, fm.end() - 1)])
        if rsrc != ("{ self.routes .iter() .any(|route| route.tx.same_channel(tx) && "
                    "route.mid.as_deref().is_some_and(|m| m != mid)) }"):
            raise Untranslatable("ListenerRegistry::registered_for_other_mid changed: " + rsrc)
    elif ext_count is not None or "by_extension" in block:
        raise Untranslatable("RtpTransport::receive: `by_extension` present but the MID guard has an unexpected shape: " + tail[:200])
    if not re.fullmatch(r"if let Some\(tx\) = selected\.as_ref\(\) && bind_ssrc \{ listeners\.bind_ssrc_route\(ssrc, tx\.clone\(\)\); \}", tail):
        raise Untranslatable("RtpTransport::receive: SSRC bind after selection changed: " + tail[:160])
    if len(found) != len(STAGES):
        raise Untranslatable("RtpTransport::receive: expected %d selection stages, found %d" % (len(STAGES), len(found)))
    out = []
    seen = set()
    for i, (guard, lookup, flag) in enumerate(found):
        name = None
        for n, rx in STAGES:
            if re.fullmatch(rx, lookup):
                name = n
        if name is None or name in seen:
            raise Untranslatable("RtpTransport::receive: unknown or repeated lookup `%s`" % lookup)
        seen.add(name)
        if flag == "selected.is_some()":
            b = "true"
        elif flag == "false":
            b = "false"
        else:
            raise Untranslatable("RtpTransport::receive: unexpected bind flag `%s`" % flag)
        # guards: the first stage is unconditional on `selected`, every later one requires selected.is_none()
        ext_guard = {
            "StRid": r"let Some\(rid\) = &rid_bytes && let Ok\(rid_str\) = std::str::from_utf8\(rid\)",
            "StMid": r"let Some\(mid\) = &mid_bytes && let Ok\(mid_str\) = std::str::from_utf8\(mid\)",
        }.get(name)
        want = []
        if i > 0:
            want.append(r"selected\.is_none\(\)")
        if ext_guard:
            want.append(ext_guard)
        if not re.fullmatch(" && ".join(want), guard):
            raise Untranslatable("RtpTransport::receive: guard of stage %s changed: `%s`" % (name, guard))
        out.append("(%s, %s)" % (name, b))
    # extension ids are read through decode_ext_id and looked up with get_extension
    for f, a in (("rid", "rid_extension_id"), ("mid", "sdes_mid_extension_id")):
        if not re.search(r"let %s_id = decode_ext_id\(self\.%s\.load\(Ordering::Relaxed\)\); " % (f, a), body) or \
           not re.search(r"let %s_bytes = %s_id\.and_then\(\|id\| rtp_packet\.header\.get_extension\(id\)\);" % (f, f), body):
            raise Untranslatable("RtpTransport::receive: %s extension lookup changed" % f)
    if not re.search(r"Err\(mpsc::error::TrySendError::Closed\(_\)\) => \{ let mut listeners = self\.listeners\.lock\(\); "
                     r"listeners\.by_ssrc\.remove\(&ssrc\); listeners\.remove_sender\(&tx\); \}", body):
        raise Untranslatable("RtpTransport::receive: closed-listener removal changed")
    if not re.search(r"Err\(mpsc::error::TrySendError::Full\(_\)\) => \{ ?\}", body):
        raise Untranslatable("RtpTransport::receive: full-channel arm changed")
    _, _, dec = rs2v.find_fn(src, "decode_ext_id")
    if norm(dec) != "{ if raw == EXT_ID_NONE { None } else { Some(raw) } }":
        raise Untranslatable("decode_ext_id changed: " + norm(dec))
    m.raw("Inductive stage : Set := StRid | StMid | StSsrc | StPt | StProv.\n"
          "Definition demux_stages : list (stage * bool) := [%s]." % "; ".join(out),
          "RtpTransport::receive selection order and bind flags", PATH)
    names = [o.split(",")[0].strip("(") for o in out]
    m.raw("Definition demux_mid_guard : bool := %s.\nDefinition demux_ext_stages : list stage := [%s]."
          % ("true" if mid_guard else "false", "; ".join(names[:ext_count or 0])),
          "RtpTransport::receive MID guard (registered_for_other_mid) and the stages exempt from it", PATH)
    return m


def gen_bridge():
    m = Module("RtpBridge")
    src = rs2v.strip_comments(rs2v.read(PATH))
    _, _, body = rs2v.find_fn(src, "rewrite_packet", "RewriteBridge")
    body = norm(body)
    mm = re.search(
        r"if let Some\(last_src\) = state\.last_source_timestamp \{ "
        r"let delta = src_timestamp\.wrapping_sub\(last_src\); "
        r"if delta < ([0-9a-fA-Fx_]+) \{ "
        r"if delta > ([0-9a-fA-Fx_]+) \{ "
        r"state\.timestamp_offset = last_src \.wrapping_add\(state\.timestamp_offset\) \.wrapping_add\(([0-9a-fA-Fx_]+)\) \.wrapping_sub\(src_timestamp\); \} "
        r"state\.last_source_timestamp = Some\(src_timestamp\); \} \} else \{ "
        r"if let Some\(desired_out\) = self\.options\.initial_output_timestamp \{ "
        r"state\.timestamp_offset = desired_out\.wrapping_sub\(src_timestamp\); "
        r"packet\.header\.marker = true; \} "
        r"state\.last_source_timestamp = Some\(src_timestamp\); \} "
        r"packet\.header\.timestamp = src_timestamp\.wrapping_add\(state\.timestamp_offset\); "
        r"packet\.header\.sequence_number = state\.next_sequence_number; "
        r"state\.next_sequence_number = state\.next_sequence_number\.wrapping_add\(([0-9a-fA-Fx_]+)\);", body)
    if not mm:
        raise Untranslatable("RewriteBridge::rewrite_packet: timestamp / sequence statements changed shape")
    back, thr, step, seqstep = (lit(mm.group(i)) for i in (1, 2, 3, 4))
    m.raw("Definition bridge_backward_bound : Z := %d." % back, "rewrite_packet `delta < 0x8000_0000`", PATH)
    m.raw("Definition bridge_discontinuity_threshold : Z := %d." % thr, "rewrite_packet `delta > 900_000`", PATH)
    m.raw("Definition bridge_rebase_step : Z := %d." % step, "rewrite_packet `.wrapping_add(3000)`", PATH)
    m.raw("Definition bridge_seq_step : Z := %d." % seqstep, "rewrite_packet next_sequence_number step", PATH)
    if not re.search(r"let out_ssrc = match &rule \{ Some\(r\) => r \.fixed_out_ssrc \.unwrap_or_else\(\|\| src_ssrc\.wrapping_add\(r\.ssrc_offset\)\), "
                     r"None => src_ssrc, \};", body):
        raise Untranslatable("RewriteBridge::rewrite_packet: output SSRC computation changed")
    if not re.search(r"packet\.header\.ssrc = state\.out_ssrc;", body):
        raise Untranslatable("RewriteBridge::rewrite_packet: SSRC assignment changed")
    if not re.search(r"if !self\.options\.strip_extensions \{ if let Some\(r\) = &rule && let \(Some\(ext_id\), Some\(mid\)\) = "
                     r"\(r\.sdes_mid_extension_id, &r\.sdes_mid\) \{ let _ = packet\.header\.set_extension\(ext_id, mid\.as_bytes\(\)\); \} \}", body):
        raise Untranslatable("RewriteBridge::rewrite_packet: MID stamping changed")
    _, _, relay = rs2v.find_fn(src, "try_bridge_rewrite_rtp", "RtpTransport")
    relay = norm(relay)
    for what, rx in (
        ("no bridge -> packet goes on to the listeners", r"if !self\.has_bridge\.load\(Ordering::Acquire\) \{ return Some\(packet\); \}"),
        ("target chosen from the original PT before the rewrite",
         r"let target = bridge\.target_for\(packet\.header\.payload_type\); bridge\.rewrite_packet\(&mut packet\); target \};"),
        ("protect with the target's session, drop on error",
         r"if let Some\(session\) = &\*session_guard \{ let mut srtp = session\.lock\(\); let protected_len = srtp\.protected_rtp_len\(&packet\); "
         r"marshal_buf\.resize\(protected_len, 0\); if srtp\.protect_rtp\(&packet, &mut marshal_buf\[\.\.\]\)\.is_err\(\) \{"),
        ("SRTP required without a session -> drop", r"\} else if target\.srtp_required \{"),
        ("plain target -> marshal", r"\} else \{ packet\.marshal_into\(marshal_buf\); \}"),
        ("send through the target's ICE connection", r"target\.ice_conn\(\)\.try_send\(marshal_buf\)"),
    ):
        if not re.search(rx, relay):
            raise Untranslatable("RtpTransport::try_bridge_rewrite_rtp: shape changed (%s)" % what)
    m.raw("Definition bridge_relay_shape_checked : bool := true.", "try_bridge_rewrite_rtp relay path shape", PATH)
    return m


MODULES = {"RtpDemux": gen_demux, "RtpBridge": gen_bridge}
