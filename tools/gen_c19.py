"""rs2v plugin for C19: Gen/RtpDemux.v and Gen/RtpBridge.v

Translated from /repo/src/transports/rtp.rs on every run (regex-anchored on whitespace-normalised
source, comments stripped; anything that no longer has the expected shape raises Untranslatable):

Gen/RtpDemux.v
  * EXT_ID_NONE (the "extension id not configured" sentinel of the AtomicU8 fields)
  * the receiver selection block of `RtpTransport::receive` (`let listener = { ... selected };`):
    the ORDER of the five lookups (by_rid / by_mid / by_ssrc / unique_by_pt / single_provisional)
    and, per lookup, whether a hit sets `bind_ssrc` (`selected.is_some()`) or not (`false`), as
    `demux_stages : list (stage * bool)`.  Model/Demux.v folds over this list, so re-ordering two
    lookups or letting the provisional fallback bind an SSRC changes what the theorems are about.
  * that a bind goes through `bind_ssrc_route(ssrc, tx.clone())` guarded by `bind_ssrc`, and that a
    closed channel is answered by `by_ssrc.remove(&ssrc)` + `remove_sender(&tx)` (shape check only).

Gen/RtpBridge.v
  * the timestamp branch of `RewriteBridge::rewrite_packet`: the "backward" bound (`delta < 0x8000_0000`),
    the discontinuity threshold (`delta > 900_000`), the re-base step (`.wrapping_add(3000)`), with the
    whole statement shape checked verbatim.
  * the sequence step (`next_sequence_number.wrapping_add(1)`).
  * the one-byte extension profile and the id / length limits of `RtpHeader::set_extension` (src/rtp.rs).
"""
import re
import sys

_main = sys.modules.get("__main__")
if _main is not None and hasattr(_main, "Untranslatable") and hasattr(_main, "Module"):
    rs2v = _main            # rs2v.py run as a script: use ITS exception class so failures are recorded
else:
    import rs2v             # imported as a library

Module = rs2v.Module
Untranslatable = rs2v.Untranslatable

PATH = "src/transports/rtp.rs"
RTP = "src/rtp.rs"


def norm(s):
    return re.sub(r"\s+", " ", s).strip()


def lit(s):
    v = rs2v.parse_int(s)
    return v[0] if isinstance(v, tuple) else v


STAGES = [
    ("StRid", r"listeners\.by_rid\.get\(rid_str\)\.cloned\(\)"),
    ("StMid", r"listeners\.by_mid\(mid_str\)"),
    ("StSsrc", r"listeners\.by_ssrc\.get\(&ssrc\)\.cloned\(\)"),
    ("StPt", r"listeners\.unique_by_pt\(pt\)"),
    ("StProv", r"listeners\.single_provisional\(\)"),
]


def gen_demux():
    m = Module("RtpDemux")
    m.add_const(PATH, "EXT_ID_NONE")
    src = rs2v.strip_comments(rs2v.read(PATH))
    _, _, body = rs2v.find_fn(src, "receive", "PacketReceiver for RtpTransport")
    body = norm(body)
    mm = re.search(r"let listener = \{ let mut listeners = self\.listeners\.lock\(\); let mut selected = None; "
                   r"let mut bind_ssrc = false; (.*?) selected \};", body)
    if not mm:
        raise Untranslatable("RtpTransport::receive: selection block `let listener = { ... selected };` not found")
    block = mm.group(1)
    # the block must be a sequence of `if <guard> { selected = <lookup>; bind_ssrc = <flag>; }` followed by the bind
    stage_re = re.compile(r"if (?P<guard>[^{}]*?) \{ selected = (?P<lookup>[^;]+); bind_ssrc = (?P<flag>[^;]+); \}")
    pos = 0
    found = []
    while True:
        sm = stage_re.match(block, pos)
        if not sm:
            break
        found.append((sm.group("guard"), sm.group("lookup"), sm.group("flag")))
        pos = sm.end()
        while pos < len(block) and block[pos] == " ":
            pos += 1
    tail = block[pos:]
    if not re.fullmatch(r"if let Some\(tx\) = selected\.as_ref\(\) && bind_ssrc \{ listeners\.bind_ssrc_route\(ssrc, tx\.clone\(\)\); \}", tail):
        raise Untranslatable("RtpTransport::receive: SSRC bind after selection changed: " + tail[:160])
    if len(found) != len(STAGES):
        raise Untranslatable("RtpTransport::receive: expected %d selection stages, found %d" % (len(STAGES), len(found)))
    out = []
    seen = set()
    for i, (guard, lookup, flag) in enumerate(found):
        name = None
        for n, rx in STAGES:
            if re.fullmatch(rx, lookup):
                name = n
        if name is None or name in seen:
            raise Untranslatable("RtpTransport::receive: unknown or repeated lookup `%s`" % lookup)
        seen.add(name)
        if flag == "selected.is_some()":
            b = "true"
        elif flag == "false":
            b = "false"
        else:
            raise Untranslatable("RtpTransport::receive: unexpected bind flag `%s`" % flag)
        # guards: the first stage is unconditional on `selected`, every later one requires selected.is_none()
        ext_guard = {
            "StRid": r"let Some\(rid\) = &rid_bytes && let Ok\(rid_str\) = std::str::from_utf8\(rid\)",
            "StMid": r"let Some\(mid\) = &mid_bytes && let Ok\(mid_str\) = std::str::from_utf8\(mid\)",
        }.get(name)
        want = []
        if i > 0:
            want.append(r"selected\.is_none\(\)")
        if ext_guard:
            want.append(ext_guard)
        if not re.fullmatch(" && ".join(want), guard):
            raise Untranslatable("RtpTransport::receive: guard of stage %s changed: `%s`" % (name, guard))
        out.append("(%s, %s)" % (name, b))
    # extension ids are read through decode_ext_id and looked up with get_extension
    for f, a in (("rid", "rid_extension_id"), ("mid", "sdes_mid_extension_id")):
        if not re.search(r"let %s_id = decode_ext_id\(self\.%s\.load\(Ordering::Relaxed\)\); " % (f, a), body) or \
           not re.search(r"let %s_bytes = %s_id\.and_then\(\|id\| rtp_packet\.header\.get_extension\(id\)\);" % (f, f), body):
            raise Untranslatable("RtpTransport::receive: %s extension lookup changed" % f)
    if not re.search(r"Err\(mpsc::error::TrySendError::Closed\(_\)\) => \{ let mut listeners = self\.listeners\.lock\(\); "
                     r"listeners\.by_ssrc\.remove\(&ssrc\); listeners\.remove_sender\(&tx\); \}", body):
        raise Untranslatable("RtpTransport::receive: closed-listener removal changed")
    if not re.search(r"Err\(mpsc::error::TrySendError::Full\(_\)\) => \{ ?\}", body):
        raise Untranslatable("RtpTransport::receive: full-channel arm changed")
    _, _, dec = rs2v.find_fn(src, "decode_ext_id")
    if norm(dec) != "{ if raw == EXT_ID_NONE { None } else { Some(raw) } }":
        raise Untranslatable("decode_ext_id changed: " + norm(dec))
    m.raw("Inductive stage : Set := StRid | StMid | StSsrc | StPt | StProv.\n"
          "Definition demux_stages : list (stage * bool) := [%s]." % "; ".join(out),
          "RtpTransport::receive selection order and bind flags", PATH)
    return m


def gen_bridge():
    m = Module("RtpBridge")
    src = rs2v.strip_comments(rs2v.read(PATH))
    _, _, body = rs2v.find_fn(src, "rewrite_packet", "RewriteBridge")
    body = norm(body)
    mm = re.search(
        r"if let Some\(last_src\) = state\.last_source_timestamp \{ "
        r"let delta = src_timestamp\.wrapping_sub\(last_src\); "
        r"if delta < ([0-9a-fA-Fx_]+) \{ "
        r"if delta > ([0-9a-fA-Fx_]+) \{ "
        r"state\.timestamp_offset = last_src \.wrapping_add\(state\.timestamp_offset\) \.wrapping_add\(([0-9a-fA-Fx_]+)\) \.wrapping_sub\(src_timestamp\); \} "
        r"state\.last_source_timestamp = Some\(src_timestamp\); \} \} else \{ "
        r"if let Some\(desired_out\) = self\.options\.initial_output_timestamp \{ "
        r"state\.timestamp_offset = desired_out\.wrapping_sub\(src_timestamp\); "
        r"packet\.header\.marker = true; \} "
        r"state\.last_source_timestamp = Some\(src_timestamp\); \} "
        r"packet\.header\.timestamp = src_timestamp\.wrapping_add\(state\.timestamp_offset\); "
        r"packet\.header\.sequence_number = state\.next_sequence_number; "
        r"state\.next_sequence_number = state\.next_sequence_number\.wrapping_add\(([0-9a-fA-Fx_]+)\);", body)
    if not mm:
        raise Untranslatable("RewriteBridge::rewrite_packet: timestamp / sequence statements changed shape")
    back, thr, step, seqstep = (lit(mm.group(i)) for i in (1, 2, 3, 4))
    m.raw("Definition bridge_backward_bound : Z := %d." % back, "rewrite_packet `delta < 0x8000_0000`", PATH)
    m.raw("Definition bridge_discontinuity_threshold : Z := %d." % thr, "rewrite_packet `delta > 900_000`", PATH)
    m.raw("Definition bridge_rebase_step : Z := %d." % step, "rewrite_packet `.wrapping_add(3000)`", PATH)
    m.raw("Definition bridge_seq_step : Z := %d." % seqstep, "rewrite_packet next_sequence_number step", PATH)
    if not re.search(r"let out_ssrc = match &rule \{ Some\(r\) => r \.fixed_out_ssrc \.unwrap_or_else\(\|\| src_ssrc\.wrapping_add\(r\.ssrc_offset\)\), "
                     r"None => src_ssrc, \};", body):
        raise Untranslatable("RewriteBridge::rewrite_packet: output SSRC computation changed")
    if not re.search(r"packet\.header\.ssrc = state\.out_ssrc;", body):
        raise Untranslatable("RewriteBridge::rewrite_packet: SSRC assignment changed")
    # set_extension limits (MID stamping)
    rsrc = rs2v.strip_comments(rs2v.read(RTP))
    _, _, sx = rs2v.find_fn(rsrc, "set_extension", "RtpHeader")
    sx = norm(sx)
    a = re.search(r"if id == (\d+) \|\| id >= (\d+) \{ return Err", sx)
    b = re.search(r"if data\.len\(\) > (\d+) \|\| data\.is_empty\(\) \{ return Err", sx)
    c = re.search(r"RtpHeaderExtension::new\((0x[0-9A-Fa-f]+), Vec::new\(\)\)\); if ext\.profile != (0x[0-9A-Fa-f]+) \{", sx)
    if not (a and b and c) or lit(c.group(1)) != lit(c.group(2)):
        raise Untranslatable("RtpHeader::set_extension: id / length / profile guards changed")
    m.raw("Definition ext_id_min_invalid : Z := %s.\nDefinition ext_id_limit : Z := %s." % (a.group(1), a.group(2)),
          "set_extension id guard", RTP)
    m.raw("Definition ext_data_max : Z := %s." % b.group(1), "set_extension length guard", RTP)
    m.raw("Definition ext_profile_one_byte : Z := %d." % lit(c.group(1)), "set_extension profile", RTP)
    return m


MODULES = {"RtpDemux": gen_demux, "RtpBridge": gen_bridge}
