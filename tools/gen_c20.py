"""C20 translator plugin: Gen/SpscProg.v -- the ordered skeleton of shared-memory operations of

  SpscRing::{push, pop}, Drop for SpscRing, SpscRing::{with_capacity, is_empty}   (src/media/spsc.rs)
  SampleStreamSource::{try_send_drop_oldest, try_send, send, send_many}, Clone / Drop for
  SampleStreamSource, SampleStreamTrack::{stop, recv}                             (src/media/track.rs)

as Gallina list literals over the token type of Model/SpscSkel.v: which atomic, load / store / fetch,
the memory-ordering argument, slot read / write / drop, the full / empty tests, index computation,
lock acquire / release (release = end of the guard's block), notify calls, returns -- in source order.

The bodies are scanned with anchored regular expressions; every `self.` access, every `Ordering::`
and every `return` of the body has to be consumed by exactly one pattern, otherwise the generator
raises Untranslatable (the shape changed -> the tie is broken, never guessed).
Model/Spsc.v mirrors these lists step by step; Proofs/SpscProofs.v proves
`skeleton_tie` (generated lists = the lists the model was written against) and
`publication_ok push_skel pop_skel = true` (index stores Release, opposite-side loads Acquire,
slot write before tail store, slot read before head store, tests between loads and slot access).
"""
import re

from rs2v import Module, Untranslatable, strip_comments, read, find_fn, balanced

SPSC = "src/media/spsc.rs"
TRACK = "src/media/track.rs"
PIPE = "src/media/pipeline.rs"

ORD = {"Relaxed": "ORelaxed", "Acquire": "OAcquire", "Release": "ORelease", "AcqRel": "OAcqRel", "SeqCst": "OSeqCst"}
ORDP = r"(?:std::sync::atomic::)?Ordering::(\w+)"


def ordering(name):
    if name not in ORD:
        raise Untranslatable("unknown memory ordering %s" % name)
    return ORD[name]


def scan(body, patterns, what, guards=()):
    """patterns: list of (regex, fn(match) -> token string or None (consumed, no token)).
    returns the tokens in source order; raises when something relevant is left over."""
    hits = []
    taken = [False] * len(body)
    for rx, fn in patterns:
        for m in re.finditer(rx, body):
            if any(taken[m.start():m.end()]):
                continue
            for i in range(m.start(), m.end()):
                taken[i] = True
            tok = fn(m)
            if tok is not None:
                hits.append((m.start(), tok))
    # guard scopes: an unlock token where the block that declares the guard ends
    for rx, tok in guards:
        for m in re.finditer(rx, body):
            depth = 0
            i = m.end()
            while i < len(body):
                if body[i] == "{":
                    depth += 1
                elif body[i] == "}":
                    depth -= 1
                    if depth < 0:
                        # guards ending at the same brace are released in reverse order of declaration
                        hits.append((i + 0.5 * (1.0 - m.start() / float(len(body))), tok))
                        break
                i += 1
            else:
                # the guard lives until the end of the function body; guards are released in
                # reverse order of declaration
                hits.append((2 * len(body) - m.start(), tok))
    rest = "".join(c for c, t in zip(body, taken) if not t)
    for bad in (r"self\s*\.", r"Ordering", r"\breturn\b", r"\.get\(\)", r"\bunsafe\s*\{\s*[^\s};]", r"\.await", r"\?"):
        mm = re.search(bad, rest)
        if mm:
            ctx = rest[max(0, mm.start() - 40):mm.end() + 40].replace("\n", " ")
            raise Untranslatable("%s: unrecognised operation near `%s`" % (what, re.sub(r"\s+", " ", ctx)))
    hits.sort()
    return [t for _, t in hits]


def lit(name, toks):
    return "Definition %s : list sk_op :=\n  [%s]." % (name, ";\n   ".join(toks))


# ------------------------------------------------------------------------------------ spsc.rs
def ring_patterns():
    def load(m):
        return "SkLoad %s %s" % ("SkHead" if m.group(1) == "head" else "SkTail", ordering(m.group(2)))

    def store(m):
        if m.group(1) != m.group(2):
            raise Untranslatable("self.%s.store(%s.wrapping_add(1), ..): stores a value derived from the other index" % (m.group(1), m.group(2)))
        return "SkStoreInc %s %s" % ("SkHead" if m.group(1) == "head" else "SkTail", ordering(m.group(3)))

    return [
        (r"self\.(head|tail)\.load\(%s\)" % ORDP, load),
        (r"self\.(head|tail)\.store\(\s*(\w+)\.wrapping_add\(1\)\s*,\s*%s\s*\)" % ORDP, store),
        (r"if\s+tail\.wrapping_sub\(head\)\s*>=\s*self\.capacity\s*\{\s*return\s+Err\(value\);\s*\}", lambda m: "SkFullTestReturnErr"),
        (r"if\s+head\s*==\s*tail\s*\{\s*return\s+None;\s*\}", lambda m: "SkEmptyTestReturnNone"),
        (r"while\s+head\s*!=\s*tail\b", lambda m: "SkWhileHeadNeTail"),
        (r"let\s+idx\s*=\s*(head|tail)\s*%\s*self\.capacity\s*;", lambda m: "SkIdx %s" % ("SkHead" if m.group(1) == "head" else "SkTail")),
        (r"\(\*self\.buffer\[idx\]\.get\(\)\)\.write\(value\)", lambda m: "SkSlotWrite"),
        (r"\(\*self\.buffer\[idx\]\.get\(\)\)\.assume_init_read\(\)", lambda m: "SkSlotRead"),
        (r"\(\*self\.buffer\[idx\]\.get\(\)\)\.assume_init_drop\(\)", lambda m: "SkSlotDrop"),
        (r"head\s*=\s*head\.wrapping_add\(1\)\s*;", lambda m: "SkLocalHeadInc"),
        (r"\bOk\(\(\)\)", lambda m: "SkRetOk"),
        (r"\bSome\(value\)", lambda m: "SkRetSome"),
    ]


def gen_spscprog():
    m = Module("SpscProg")
    m.lines.append("From RV Require Import Model.SpscSkel.")
    src = strip_comments(read(SPSC))

    # struct shape: two AtomicUsize indices, a capacity, a boxed slice of MaybeUninit cells
    sm = re.search(r"pub struct SpscRing<T>\s*\{([^}]*)\}", src)
    if not sm:
        raise Untranslatable("struct SpscRing<T> not found")
    fields = dict((a.strip(), re.sub(r"\s+", "", b)) for a, b in re.findall(r"(\w+)\s*:\s*([^,\n]+),", sm.group(1)))
    want = {"buffer": "Box<[UnsafeCell<MaybeUninit<T>>]>", "capacity": "usize",
            "head": "CachePadded<AtomicUsize>", "tail": "CachePadded<AtomicUsize>"}
    if fields != want:
        raise Untranslatable("SpscRing fields are %r, expected %r" % (fields, want))
    m.raw("(* indices are AtomicUsize: the harness asserts usize::BITS = 64 on the build target *)\n"
          "Definition ring_index_bits : Z := 64.", "struct SpscRing (field types)", SPSC)
    m.raw("Definition ring_is_sync : bool := %s." % ("true" if re.search(r"unsafe\s+impl<T:\s*Send>\s+Sync\s+for\s+SpscRing<T>", src) else "false"),
          "unsafe impl Sync for SpscRing", SPSC)

    _, _, body = find_fn(src, "with_capacity", "SpscRing<T>")
    am = re.search(r"assert!\(\s*capacity\s*>\s*(\d+)\s*,", body)
    if not am:
        raise Untranslatable("with_capacity: `assert!(capacity > N` not found")
    if len(re.findall(r"(head|tail):\s*CachePadded::new\(AtomicUsize::new\(0\)\)", body)) != 2:
        raise Untranslatable("with_capacity: head/tail are not both initialised to 0")
    if not re.search(r"for\s+_\s+in\s+0\.\.capacity\s*\{\s*v\.push\(UnsafeCell::new\(MaybeUninit::uninit\(\)\)\);\s*\}", body):
        raise Untranslatable("with_capacity: slots are not `capacity` uninitialised cells")
    m.raw("Definition ring_min_capacity : Z := %d." % (int(am.group(1)) + 1), "SpscRing::with_capacity (assert, initial indices, uninit slots)", SPSC)

    for fn, name in (("push", "push_skel"), ("pop", "pop_skel")):
        _, _, body = find_fn(src, fn, "SpscRing<T>")
        m.raw(lit(name, scan(body, ring_patterns(), "SpscRing::" + fn)), "fn SpscRing::%s (atomic skeleton)" % fn, SPSC)
    _, _, body = find_fn(src, "drop", "Drop for SpscRing<T>")
    m.raw(lit("ringdrop_skel", scan(body, ring_patterns(), "Drop for SpscRing")), "Drop for SpscRing (skeleton)", SPSC)
    _, _, body = find_fn(src, "is_empty", "SpscRing<T>")
    m.raw(lit("is_empty_skel", scan(body, ring_patterns() + [(r"==", lambda mm: "SkCmpEq")], "SpscRing::is_empty")),
          "fn SpscRing::is_empty (skeleton)", SPSC)

    # ---------------------------------------------------------------------------------- track.rs
    tsrc = strip_comments(read(TRACK))
    m.raw("Definition source_is_clone : bool := %s." % ("true" if re.search(r"(?m)^impl\s+Clone\s+for\s+SampleStreamSource\b", tsrc) else "false"),
          "impl Clone for SampleStreamSource", TRACK)
    im = re.search(r"active_senders\s*=\s*Arc::new\(std::sync::atomic::AtomicUsize::new\((\d+)\)\)", tsrc)
    if not im:
        raise Untranslatable("sample_track: initial active_senders not found")
    m.raw("Definition initial_senders : Z := %s." % im.group(1), "sample_track (initial active_senders)", TRACK)

    def flag_load(atom):
        return lambda mm: "SkLoad %s %s" % (atom, ordering(mm.group(1)))

    def flag_store(atom):
        return lambda mm: "SkStoreTrue %s %s" % (atom, ordering(mm.group(1)))

    track_patterns = [
        (r"if\s+sample\.kind\(\)\s*!=\s*self\.kind\s*\{\s*return\s+Err\(MediaError::KindMismatch\s*\{\s*expected:\s*self\.kind,\s*actual:\s*sample\.kind\(\),\s*\}\);\s*\}",
         lambda mm: "SkKindCheck"),
        (r"if\s+self\.source_closed\.load\(%s\)\s*&&\s*self\.queue\.is_empty\(\)" % ORDP,
         lambda mm: "SkLoad SkClosed %s;\n   SkIsEmpty" % ordering(mm.group(1))),
        (r"self\.source_closed\.load\(%s\)" % ORDP, flag_load("SkClosed")),
        (r"self\.source_closed\.store\(true,\s*%s\)" % ORDP, flag_store("SkClosed")),
        (r"self\.ended\.load\(%s\)" % ORDP, flag_load("SkEnded")),
        (r"self\.ended\.store\(true,\s*%s\)" % ORDP, flag_store("SkEnded")),
        (r"self\s*\.active_senders\s*\.fetch_add\(1,\s*%s\)" % ORDP, lambda mm: "SkFetchAdd SkSenders %s" % ordering(mm.group(1))),
        (r"self\s*\.active_senders\s*\.fetch_sub\(1,\s*%s\)\s*==\s*1" % ORDP, lambda mm: "SkFetchSubWasOne SkSenders %s" % ordering(mm.group(1))),
        (r"self\.queue\s*\.push\(sample\)\s*\.map_err\(\|_\|\s*MediaError::WouldBlock\)\?", lambda mm: "SkCallPush;\n   SkRetErrWouldBlockIfFull"),
        (r"self\.queue\.push\(sample\)", lambda mm: "SkCallPush"),
        (r"self\.queue\.pop\(\)", lambda mm: "SkCallPop"),
        (r"self\.queue\.is_empty\(\)", lambda mm: "SkIsEmpty"),
        (r"self\.push_lock\.lock\(\)", lambda mm: "SkPushLock"),
        (r"self\.pop_lock\.try_lock\(\)", lambda mm: "SkTryLock"),
        (r"self\.pop_lock\.lock\(\)", lambda mm: "SkLock"),
        (r"self\.notify\.notify_one\(\)", lambda mm: "SkNotifyOne"),
        (r"self\.notify\.notify_waiters\(\)", lambda mm: "SkNotifyWaiters"),
        (r"self\.notify\.notified\(\)\.await", lambda mm: "SkNotifiedCreate;\n   SkNotifiedAwait"),
        (r"let\s+notified\s*=\s*self\.notify\.notified\(\);", lambda mm: "SkNotifiedCreate"),
        (r"\bnotified\.await", lambda mm: "SkNotifiedAwait"),
        (r"if\s+closed\s*\{", lambda mm: "SkIfClosedLocal"),
        (r"self\.try_send_drop_oldest\(sample\)\?", lambda mm: "SkCallSendDropOldestTry"),
        (r"self\.try_send_drop_oldest\(sample\)", lambda mm: "SkCallSendDropOldest"),
        (r"return\s+Err\(MediaError::Closed\)", lambda mm: "SkRetErrClosed"),
        (r"return\s+Err\(MediaError::EndOfStream\)", lambda mm: "SkRetEos"),
        (r"None\s*=>\s*return\s+Ok\(\(\)\)", lambda mm: "SkRetOkIfLockBusy"),
        (r"return\s+Ok\(\(\)\)", lambda mm: "SkRetOk"),
        (r"return\s+Ok\(sample\)", lambda mm: "SkRetSample"),
        (r"\bOk\(\(\)\)\s*\}?\s*$", lambda mm: "SkRetOk"),
        (r"for\s+sample\s+in\s+samples\b", lambda mm: "SkForEachSample"),
        # clone(): the Arc field copies are not shared-memory operations of the queue protocol
        (r"(id|queue|notify|pop_lock|push_lock|source_closed|active_senders|drop_count):\s*self\.\1\.clone\(\)", lambda mm: None),
        (r"kind:\s*self\.kind\b", lambda mm: None),
    ]
    guard = [(r"let\s+_pop_guard\s*=", "SkUnlock"), (r"let\s+_push_guard\s*=", "SkPushUnlock")]
    items = [
        ("try_send_drop_oldest", "SampleStreamSource", "send_drop_oldest_skel"),
        ("try_send", "SampleStreamSource", "try_send_skel"),
        ("send", "SampleStreamSource", "send_skel"),
        ("send_many", "SampleStreamSource", "send_many_skel"),
        ("clone", "Clone for SampleStreamSource", "source_clone_skel"),
        ("drop", "Drop for SampleStreamSource", "source_drop_skel"),
        ("stop", "SampleStreamTrack", "stop_skel"),
        ("recv", "MediaStreamTrack for SampleStreamTrack", "recv_skel"),
    ]
    for fn, impl, name in items:
        _, _, body = find_fn(tsrc, fn, impl)
        m.raw(lit(name, scan(body, track_patterns, "%s::%s" % (impl, fn), guards=guard)),
              "fn %s::%s (shared-memory skeleton)" % (impl, fn), TRACK)
    # ---------------------------------------------------------------------------------- pipeline.rs
    psrc = strip_comments(read(PIPE))
    pipe_patterns = [
        (r"if\s+self\.queue\.is_empty\(\)\s*&&\s*!self\.closed\.load\(%s\)" % ORDP,
         lambda mm: "SkIsEmpty;\n   SkLoad SkClosed %s" % ordering(mm.group(1))),
        (r"self\s*\.closed\s*\.load\(%s\)" % ORDP, flag_load("SkClosed")),
        (r"self\s*\.closed\s*\.store\(true,\s*%s\)" % ORDP, flag_store("SkClosed")),
        (r"self\.queue\.push\(sample\)", lambda mm: "SkCallPush"),
        (r"self\.queue\.pop\(\)", lambda mm: "SkCallPop"),
        (r"self\.push_lock\.lock\(\)", lambda mm: "SkPushLock"),
        (r"self\.pop_lock\.try_lock\(\)", lambda mm: "SkTryLock"),
        (r"self\.pop_lock\.lock\(\)", lambda mm: "SkLock"),
        (r"self\.notify\.notify_one\(\)", lambda mm: "SkNotifyOne"),
        (r"self\.notify\.notify_waiters\(\)", lambda mm: "SkNotifyWaiters"),
        (r"let\s+notified\s*=\s*self\.notify\.notified\(\);", lambda mm: "SkNotifiedCreate"),
        (r"\bnotified\.await", lambda mm: "SkNotifiedAwait"),
        (r"if\s+closed\s*\{", lambda mm: "SkIfClosedLocal"),
        (r"return\s+Err\(\(\)\)", lambda mm: "SkRetErrClosed"),
        (r"return\s+Err\(sample\)", lambda mm: "SkRetErrClosed"),
        (r"Err\(sample\)\s*=>\s*Err\(sample\)", lambda mm: "SkRetErrWouldBlockIfFull"),
        (r"None\s*=>\s*return\s+Ok\(\(\)\)", lambda mm: "SkRetOkIfLockBusy"),
        (r"return\s+Ok\(\(\)\)", lambda mm: "SkRetOk"),
        (r"return\s+Some\(sample\)", lambda mm: "SkRetSample"),
        (r"return\s+None", lambda mm: "SkRetEos"),
        (r"\bOk\(\(\)\)\s*=>", lambda mm: None),
        (r"\bOk\(\(\)\)", lambda mm: "SkRetOk"),
    ]
    pguard = [(r"let\s+_guard\s*=", "SkUnlock"), (r"let\s+_push_guard\s*=", "SkPushUnlock")]
    for fn, impl, name in (("send", "SampleQueueSender", "q_send_skel"), ("try_send", "SampleQueueSender", "q_try_send_skel"),
                           ("drop", "Drop for SampleQueueSender", "q_drop_skel"), ("recv", "SampleQueueReceiver", "q_recv_skel")):
        _, _, body = find_fn(psrc, fn, impl)
        m.raw(lit(name, scan(body, pipe_patterns, "%s::%s" % (impl, fn), guards=pguard)),
              "fn %s::%s (shared-memory skeleton)" % (impl, fn), PIPE)
    return m


MODULES = {"SpscProg": gen_spscprog}
