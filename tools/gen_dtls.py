"""rs2v plugin for C02 / C11: Gen/Dtls.v

Regenerated from /repo/src/transports/dtls/{handshake.rs,record.rs,mod.rs} and /repo/src/sdp.rs on
every run.  Every item is found by an anchored regular expression on the comment-stripped,
whitespace-normalised source; anything that no longer has the expected shape raises
Untranslatable (the check then reports a broken tie) -- nothing is guessed.

  * enum HandshakeType / ContentType with their wire codes, and the `TryFrom<u8>` tables (checked
    to be exactly the inverse of the discriminants) as `ht_of_code` / `ct_of_code`
  * the dispatch table of `handle_handshake_message` (which message types have a handler; the
    `_ => {}` arm swallows the rest -- CertificateRequest / CertificateVerify have none: F17)
  * the message types excluded from the transcript in `process_handshake_payload`
  * the message types, in order, of the three flights the code builds
    (`handle_client_hello`, `handle_server_hello_done`, `handle_finished`) and what
    `handle_server_hello_done` stores as the retransmittable flight
  * the sequence filter's special case (duplicate ClientHello on the server re-triggers the flight)
  * timer constants: retransmit period and handshake deadline (non-test cfg)
  * key schedule constants: PRF labels (as byte lists) and output lengths, key-block slicing
  * ServerKeyExchange curve constants, preferred SRTP profile, offered SRTP profiles, EMS offered
  * fingerprint rendering (`fingerprint_from_der`) and `normalize_fingerprint_value` shape
"""
import re
import sys

_main = sys.modules.get("__main__")
if _main is not None and hasattr(_main, "Untranslatable") and hasattr(_main, "Module"):
    rs2v = _main
else:
    import rs2v

Module = rs2v.Module
Untranslatable = rs2v.Untranslatable

HS = "src/transports/dtls/handshake.rs"
REC = "src/transports/dtls/record.rs"
MOD = "src/transports/dtls/mod.rs"
SDP = "src/sdp.rs"


def norm(s):
    return re.sub(r"\s+", " ", s).strip()


def need(pat, text, what, flags=0):
    m = re.search(pat, text, flags)
    if not m:
        raise Untranslatable("%s: expected shape not found" % what)
    return m


def tryfrom_table(src, enum, variants):
    m = need(r"impl TryFrom<u8> for %s \{(.*?)\n\}" % enum, src, "TryFrom<u8> for " + enum, re.S)
    arms = re.findall(r"(\d+) => Ok\(%s::(\w+)\)" % enum, m.group(1))
    table = sorted((int(c), v) for c, v in arms)
    want = sorted((int(rs2v.parse_int(d)[0]), v) for v, d in variants)
    if table != want:
        raise Untranslatable("TryFrom<u8> for %s is not the inverse of the discriminants: %r vs %r" % (enum, table, want))
    if not re.search(r"_ => bail!", m.group(1)):
        raise Untranslatable("TryFrom<u8> for %s: no rejecting default arm" % enum)
    return table


def bytes_lit(s):
    return "[" + "; ".join(str(b) for b in s.encode()) + "]"


def gen_dtls():
    m = Module("Dtls")
    # ---------------------------------------------------------------- enums and code tables
    m.add_enum(HS, "HandshakeType")
    m.add_enum(REC, "ContentType")
    hs = rs2v.strip_comments(rs2v.read(HS))
    rec = rs2v.strip_comments(rs2v.read(REC))
    hv = rs2v.find_enum(hs, "HandshakeType")
    cv = rs2v.find_enum(rec, "ContentType")
    if any(d is None for _, d in hv) or any(d is None for _, d in cv):
        raise Untranslatable("HandshakeType/ContentType without explicit discriminants")
    ht = tryfrom_table(hs, "HandshakeType", hv)
    ct = tryfrom_table(rec, "ContentType", cv)
    m.raw("Definition ht_of_code (c : Z) : option HandshakeType :=\n  %s None." %
          " ".join("if Z.eqb c %d then Some HandshakeType_%s else" % (c, v) for c, v in ht),
          "impl TryFrom<u8> for HandshakeType", HS)
    m.raw("Definition ct_of_code (c : Z) : option ContentType :=\n  %s None." %
          " ".join("if Z.eqb c %d then Some ContentType_%s else" % (c, v) for c, v in ct),
          "impl TryFrom<u8> for ContentType", REC)
    need(r"pub const HEADER_SIZE: usize = 12;", hs, "HandshakeMessage::HEADER_SIZE")
    need(r"pub const HEADER_SIZE: usize = 13;", rec, "DtlsRecord::HEADER_SIZE")
    m.raw("Definition HS_HEADER_SIZE : Z := 12.\nDefinition REC_HEADER_SIZE : Z := 13.", "HEADER_SIZE constants", HS)

    src = rs2v.strip_comments(rs2v.read(MOD))

    # ---------------------------------------------------------------- dispatch table
    _, _, body = rs2v.find_fn(src, "handle_handshake_message", "DtlsInner")
    arms = re.findall(r"HandshakeType::(\w+) => \{ self\.(\w+)\(", norm(body))
    if not arms or not re.search(r"_ => \{\}", norm(body)):
        raise Untranslatable("handle_handshake_message: dispatch table shape")
    names = [v for v, _ in hv]
    for v, _h in arms:
        if v not in names:
            raise Untranslatable("handle_handshake_message: unknown variant " + v)
    m.raw("Definition hs_dispatched : list HandshakeType := [%s]." % "; ".join("HandshakeType_" + v for v, _ in arms),
          "handle_handshake_message dispatch table", MOD)
    m.raw("Definition hs_handler_names : list (HandshakeType * Z) := [%s]." %
          "; ".join("(HandshakeType_%s, %d)" % (v, i) for i, (v, _h) in enumerate(arms)),
          "handle_handshake_message handler order", MOD)
    expect_handlers = {"ClientHello": "handle_client_hello", "ClientKeyExchange": "handle_client_key_exchange",
                       "Finished": "handle_finished", "HelloVerifyRequest": "handle_hello_verify_request",
                       "ServerHello": "handle_server_hello", "Certificate": "handle_certificate",
                       "ServerKeyExchange": "handle_server_key_exchange", "ServerHelloDone": "handle_server_hello_done"}
    if dict(arms) != expect_handlers:
        raise Untranslatable("handle_handshake_message: handlers changed: %r" % (dict(arms),))

    # ---------------------------------------------------------------- process_handshake_payload
    _, _, php = rs2v.find_fn(src, "process_handshake_payload", "DtlsInner")
    p = norm(php)
    ex = re.findall(r"processing_msg\.msg_type != HandshakeType::(\w+)", p)
    if not ex:
        raise Untranslatable("process_handshake_payload: transcript exclusion list")
    m.raw("Definition transcript_excluded : list HandshakeType := [%s]." % "; ".join("HandshakeType_" + v for v in ex),
          "process_handshake_payload transcript exclusion", MOD)
    need(r"if msg\.message_seq < ctx\.recv_message_seq \{", p, "sequence filter (<)")
    need(r"if msg\.message_seq > ctx\.recv_message_seq \{", p, "sequence filter (>)")
    need(r"if msg\.message_seq < ctx\.recv_message_seq \{ if ctx\.post_hvr && is_client && msg\.msg_type != HandshakeType::HelloVerifyRequest \{", p,
         "post-HVR resync (lower seq; not for a duplicated HelloVerifyRequest)")
    need(r"if msg\.message_seq > ctx\.recv_message_seq \{ if ctx\.post_hvr && is_client \{", p, "post-HVR resync (higher seq)")
    m.raw("Definition hvr_dup_not_resync : bool := true.", "process_handshake_payload post-HVR resync guards", MOD)
    dup = need(r"if msg\.msg_type == HandshakeType::(\w+) && !is_client \{ self ?\.handle_handshake_message\(", p,
               "duplicate ClientHello special case")
    m.raw("Definition dup_retrigger_type : HandshakeType := HandshakeType_%s." % dup.group(1),
          "process_handshake_payload duplicate special case", MOD)
    rf = need(r"\} else if msg\.msg_type == HandshakeType::(\w+) && !is_client && matches!\(\*self\.state\.lock\(\), DtlsState::Connected\(\.\.\)\) \{ "
              r"if let Some\(records\) = &ctx\.last_flight_records \{ let _ = self\.conn\.send_dtls_record_batch\(records\)\.await; \} \} continue;", p,
              "duplicate Finished on a Connected server re-sends the last flight")
    m.raw("Definition dup_reflight_type : HandshakeType := HandshakeType_%s." % rf.group(1),
          "process_handshake_payload duplicate Finished special case", MOD)
    need(r"if msg\.total_length != msg\.fragment_length \{", p, "fragment test")
    need(r"if ctx\.incomplete_msg_seq != msg\.message_seq \|\| msg\.fragment_offset == 0 \{", p, "fragment buffer reset rule")
    need(r"msg\.message_seq; \} if msg\.fragment_offset as usize != ctx\.incomplete_handshake\.len\(\) "
         r"\|\| msg\.fragment_offset as u64 \+ msg\.fragment_length as u64 > msg\.total_length as u64 \{ continue; \} "
         r"ctx\.incomplete_handshake\.extend_from_slice\(&msg\.body\[\.\.\]\);", p, "fragment accepted only at the next contiguous offset")
    m.raw("Definition frag_contiguous_only : bool := true.", "process_handshake_payload contiguous-offset rule", MOD)
    need(r"if ctx\.incomplete_handshake\.len\(\) < msg\.total_length as usize \{", p, "fragment completion test")
    need(r"ctx\.recv_message_seq = ctx\.recv_message_seq\.wrapping_add\(1\);", p, "recv_message_seq increment (wrapping)")
    if rs2v.find_struct_fields(src, "HandshakeContext").get("recv_message_seq") != "u16":
        raise Untranslatable("HandshakeContext.recv_message_seq is not u16")
    m.raw("Definition RECV_SEQ_MODULUS : Z := 65536.", "recv_message_seq is a wrapping u16", MOD)
    # 1 = the reassembly buffer appends in arrival order and never looks at fragment_offset except `== 0`
    off_uses = len(re.findall(r"fragment_offset", p))
    m.raw("Definition frag_offset_uses : Z := %d." % off_uses, "process_handshake_payload uses of fragment_offset", MOD)

    # ---------------------------------------------------------------- flights
    def flight(fn):
        _, _, b = rs2v.find_fn(src, fn, "DtlsInner")
        return re.findall(r"msg_type: HandshakeType::(\w+)", b), norm(b)
    f_ch, b_ch = flight("handle_client_hello")
    f_shd, b_shd = flight("handle_server_hello_done")
    f_fin, b_fin = flight("handle_finished")
    f_hvr, _ = flight("handle_hello_verify_request")
    for nm, fl in (("server_flight", f_ch), ("client_flight", f_shd), ("finished_flight", f_fin), ("hvr_flight", f_hvr)):
        m.raw("Definition %s : list HandshakeType := [%s]." % (nm, "; ".join("HandshakeType_" + v for v in fl)),
              "message types built by the handler (%s)" % nm, MOD)
    # what the client keeps for retransmission after ServerHelloDone
    need(r"let client_key_exchange_record = self \.send_handshake_message\(", b_shd, "ClientKeyExchange record kept")
    need(r"flight_records\.insert\(0, client_key_exchange_record\); ctx\.last_flight_records = Some\(flight_records\);", b_shd,
         "client flight 5 retransmission set")
    m.raw("Definition client_flight_keeps_cke : bool := true.", "handle_server_hello_done last_flight_records", MOD)
    need(r"if is_client && !ctx\.server_key_exchange_verified \{", b_shd, "ServerHelloDone verified gate")
    need(r"if ctx\.server_random\.is_some\(\) \{ if let Some\(records\) = &ctx\.last_flight_records", b_ch,
         "duplicate ClientHello re-flight")
    need(r"if srtp_profiles\.contains\(&0x0001\) \{ 0x0001 \} else \{ srtp_profiles\[0\] \}", b_ch, "SRTP profile preference")
    m.raw("Definition SRTP_PREFERRED : Z := 1.", "handle_client_hello SRTP preference", MOD)
    cs = need(r"cipher_suite: (0x[0-9A-Fa-f]+),", b_ch, "ServerHello cipher suite")
    m.raw("Definition SERVER_CIPHER_SUITE : Z := %d." % int(cs.group(1), 16), "ServerHello cipher suite", MOD)
    cv_ = need(r"curve_type: (\d+), named_curve: (\d+),", b_ch, "ServerKeyExchange curve constants")
    need(r"params\.push\(%s\); params\.extend_from_slice\(&%su16\.to_be_bytes\(\)\);" % (cv_.group(1), cv_.group(2)), b_ch,
         "ServerKeyExchange signed params")
    m.raw("Definition SKE_CURVE_TYPE : Z := %s.\nDefinition SKE_NAMED_CURVE : Z := %s." % (cv_.group(1), cv_.group(2)),
          "ServerKeyExchange curve constants", MOD)

    # ---------------------------------------------------------------- certificate / SKE checks (order)
    _, _, b_cert = rs2v.find_fn(src, "handle_certificate", "DtlsInner")
    bc = norm(b_cert)
    i1 = bc.find("certificate.certificates.first()")
    i2 = bc.find("&actual_fingerprint != expected_fingerprint")
    i3 = bc.find("certificate_public_key(leaf_certificate)")
    i4 = bc.find("ctx.peer_certificate = Some(leaf_certificate.clone())")
    if not (0 <= i1 < i2 < i3 < i4):
        raise Untranslatable("handle_certificate: order leaf / fingerprint / public key / store changed")
    need(r"let actual_fingerprint = fingerprint_from_der\(leaf_certificate\); "
         r"if let Some\(expected_fingerprint\) = &ctx\.expected_remote_fingerprint && &actual_fingerprint != expected_fingerprint \{", bc,
         "fingerprint comparison is String inequality of the rendered digest and the expected value")
    if rs2v.find_struct_fields(src, "HandshakeContext").get("expected_remote_fingerprint") != "Option<String>":
        raise Untranslatable("HandshakeContext.expected_remote_fingerprint is not Option<String>")
    m.raw("Definition fp_compare_is_string_equality : bool := true.", "handle_certificate fingerprint comparison", MOD)
    _, _, b_ske = rs2v.find_fn(src, "handle_server_key_exchange", "DtlsInner")
    bs = norm(b_ske)
    j0 = bs.find("if is_client {")
    j1 = bs.find("ctx.peer_certificate.as_deref() else")
    j2 = bs.find("(&ctx.client_random, &ctx.server_random) else")
    j3 = bs.find("verify_server_key_exchange_signature(")
    j4 = bs.find("ctx.server_key_exchange_verified = true;")
    if not (0 <= j0 < j1 < j2 < j3 < j4):
        raise Untranslatable("handle_server_key_exchange: order of checks changed")
    _, _, b_ver = rs2v.find_fn(src, "verify_server_key_exchange_signature")
    bv = norm(b_ver)
    need(r"signed_params\.extend_from_slice\(client_random\); signed_params\.extend_from_slice\(server_random\); "
         r"signed_params\.push\(server_key_exchange\.curve_type\); "
         r"signed_params\.extend_from_slice\(&server_key_exchange\.named_curve\.to_be_bytes\(\)\); "
         r"signed_params\.push\(pk_len as u8\); signed_params\.extend_from_slice\(&server_key_exchange\.public_key\);",
         bv, "signed_params layout")
    m.raw("Definition ske_signed_layout_ok : bool := true.", "verify_server_key_exchange_signature signed_params layout", MOD)

    # ---------------------------------------------------------------- finished / key schedule
    bf = b_fin
    need(r"if !is_client \{ if let Some\(keys\) = &ctx\.session_keys \{ let expected_verify_data = calculate_verify_data\( "
         r"&keys\.master_secret, b\"client finished\", &ctx\.handshake_messages, \)\?;", bf, "server verifies client Finished")
    need(r"if finished\.verify_data != expected_verify_data \{", bf, "Finished comparison")
    labels = {}
    for lab in ("client finished", "server finished"):
        if ('b"%s"' % lab) not in bf and ('b"%s"' % lab) not in b_shd:
            raise Untranslatable("label %r not used" % lab)
    _, _, b_cvd = rs2v.find_fn(src, "calculate_verify_data")
    vd = need(r"prf_sha256\(master_secret, label, &hash, (\d+)\)", norm(b_cvd), "verify_data length")
    _, _, b_exp = rs2v.find_fn(src, "expand_keys")
    be = norm(b_exp)
    kb = need(r"prf_sha256\( master_secret, b\"key expansion\", \[server_random, client_random\]\.concat\(\)\.as_slice\(\), (\d+), \)",
              be, "key expansion call")
    sl = re.findall(r"keys\.(\w+)\.copy_from_slice\(&key_block\[(\d+)\.\.(\d+)\]\);", be)
    if [s[0] for s in sl] != ["client_write_key", "server_write_key", "client_write_iv", "server_write_iv"]:
        raise Untranslatable("expand_keys: key block slicing changed")
    m.raw("Definition VERIFY_DATA_LEN : Z := %s.\nDefinition KEY_BLOCK_LEN : Z := %s." % (vd.group(1), kb.group(1)),
          "verify_data / key block lengths", MOD)
    m.raw("Definition key_block_slices : list (Z * Z) := [%s]." % "; ".join("(%s, %s)" % (a, b) for _, a, b in sl),
          "expand_keys slicing (client key, server key, client iv, server iv)", MOD)
    _, _, b_cke = rs2v.find_fn(src, "handle_client_key_exchange", "DtlsInner")
    for b_, who in ((norm(b_cke), "handle_client_key_exchange"), (b_shd, "handle_server_hello_done")):
        ms = need(r"if ctx\.ems_negotiated \{ .*? prf_sha256\( pre_master_secret, b\"extended master secret\", &session_hash, (\d+), \) \} "
                  r"else \{ prf_sha256\(pre_master_secret, b\"master secret\", &seed, (\d+)\) \}", b_, who + " master secret")
        if ms.group(1) != ms.group(2):
            raise Untranslatable("master secret lengths differ")
    m.raw("Definition MASTER_SECRET_LEN : Z := %s." % ms.group(1), "master secret length", MOD)
    for nm, lab in (("LABEL_MASTER", "master secret"), ("LABEL_EXT_MASTER", "extended master secret"),
                    ("LABEL_KEY_EXPANSION", "key expansion"), ("LABEL_CLIENT_FINISHED", "client finished"),
                    ("LABEL_SERVER_FINISHED", "server finished")):
        m.raw("Definition %s : list Z := %s." % (nm, bytes_lit(lab)), "PRF label %r" % lab, MOD)
    _, _, b_ekm = rs2v.find_fn(src, "export_keying_material", "DtlsTransport")
    need(r"if let DtlsState::Connected\(crypto, _\) = &\*state \{ let seed = \[ crypto\.keys\.client_random\.as_slice\(\), "
         r"crypto\.keys\.server_random\.as_slice\(\), \] \.concat\(\); "
         r"prf_sha256\(&crypto\.keys\.master_secret, label\.as_bytes\(\), &seed, len\) \} else \{ Err\(", norm(b_ekm),
         "export_keying_material gate")
    m.raw("Definition export_gate_connected_only : bool := true.", "export_keying_material gate", MOD)

    # ---------------------------------------------------------------- timers
    _, _, b_hs = rs2v.find_fn(src, "handshake", "DtlsInner")
    bh = norm(b_hs)
    iv = need(r"tokio::time::interval_at\( tokio::time::Instant::now\(\) \+ std::time::Duration::from_secs\((\d+)\), "
              r"std::time::Duration::from_secs\((\d+)\), \)", bh, "retransmit interval")
    if iv.group(1) != iv.group(2):
        raise Untranslatable("retransmit interval: first tick and period differ")
    raw = rs2v.read(MOD)
    to = need(r"#\[cfg\(not\(test\)\)\]\s*const DTLS_HANDSHAKE_TIMEOUT: std::time::Duration = std::time::Duration::from_secs\((\d+)\);",
              raw, "DTLS_HANDSHAKE_TIMEOUT")
    need(r"_ = &mut handshake_timeout, if matches!\(\*self\.state\.lock\(\), DtlsState::Handshaking\) =>", bh, "deadline guard")
    _, _, b_rt = rs2v.find_fn(src, "handle_retransmit", "DtlsInner")
    need(r"if \*self\.state\.lock\(\) != DtlsState::Handshaking \{ return; \}", norm(b_rt), "retransmit only while Handshaking")
    m.raw("Definition RETRANSMIT_SECS : Z := %s.\nDefinition DTLS_HANDSHAKE_TIMEOUT_SECS : Z := %s." % (iv.group(1), to.group(1)),
          "retransmit period and handshake deadline", MOD)
    need(r"if \*self\.state\.lock\(\) == DtlsState::Failed \{ return Err\(e\); \}", bh, "loop exit on Failed")

    # ---------------------------------------------------------------- record loop (epoch-0 rule)
    _, _, b_in = rs2v.find_fn(src, "handle_incoming_packet", "DtlsInner")
    bi = norm(b_in)
    need(r"if record\.epoch == 0 && \(record\.content_type == ContentType::ApplicationData \|\| ctx\.session_keys\.is_some\(\)\) \{ "
         r"let handshaking = matches!\(\*self\.state\.lock\(\), DtlsState::Handshaking\); "
         r"if !handshaking \|\| record\.content_type != ContentType::ChangeCipherSpec \{ continue; \} \}",
         bi, "epoch-0 discard rule")
    m.raw("Definition epoch0_discard_rule : bool := true.", "handle_incoming_packet epoch-0 discard rule", MOD)
    _, _, b_td = rs2v.find_fn(src, "try_decrypt_record", "DtlsInner")
    need(r"if record\.epoch == 0 \{ return Ok\(record\.payload\.clone\(\)\); \}", norm(b_td), "epoch-0 plaintext path")

    # ---------------------------------------------------------------- client hello offer
    _, _, b_ext = rs2v.find_fn(src, "get_client_hello_extensions")
    bx = norm(b_ext)
    need(r"extensions\.extend_from_slice\(&\[0x00, 0x17, 0x00, 0x00\]\);", bx, "EMS offer")
    sp = need(r"extensions\.extend_from_slice\(&\[ 0x00, 0x0e, 0x00, 0x07, 0x00, 0x04, ((?:0x[0-9a-fA-F]{2}, ){4})0x00, \]\);", bx, "use_srtp offer")
    bs_ = [int(x, 16) for x in re.findall(r"0x([0-9a-fA-F]{2})", sp.group(1))]
    profs = [bs_[0] * 256 + bs_[1], bs_[2] * 256 + bs_[3]]
    m.raw("Definition CLIENT_OFFERS_EMS : bool := true.\nDefinition CLIENT_SRTP_PROFILES : list Z := [%s]." %
          "; ".join(str(x) for x in profs), "get_client_hello_extensions", MOD)
    _, _, b_sh = rs2v.find_fn(src, "handle_server_hello", "DtlsInner")
    bsh = norm(b_sh)
    need(r"if ext_type == 23 \{ ctx\.ems_negotiated = true; \} else if ext_type == 14 \{", bsh, "ServerHello extension types")
    m.raw("Definition EXT_EMS : Z := 23.\nDefinition EXT_USE_SRTP : Z := 14.", "extension type codes", MOD)

    # ---------------------------------------------------------------- fingerprints
    _, _, b_fp = rs2v.find_fn(src, "fingerprint_from_der")
    need(r"\.map\(\|b\| format!\(\"\{:02X\}\", b\)\) \.collect::<Vec<String>>\(\) \.join\(\":\"\)", norm(b_fp), "fingerprint rendering")
    sdp = rs2v.strip_comments(rs2v.read(SDP))
    _, _, b_n = rs2v.find_fn(sdp, "normalize_fingerprint_value")
    bn = norm(b_n)
    need(r"\.filter\(\|c\| !c\.is_ascii_whitespace\(\) && \*c != ':'\) \.collect::<String>\(\) \.to_ascii_uppercase\(\);", bn, "normalize: filter/uppercase")
    need(r"if normalized\.is_empty\(\) \|\| normalized\.len\(\) % 2 != 0 \{ return Err", bn, "normalize: length check")
    need(r"if !normalized\.chars\(\)\.all\(\|c\| c\.is_ascii_hexdigit\(\)\) \{ return Err", bn, "normalize: hex check")
    need(r"for \(index, chunk\) in normalized\.as_bytes\(\)\.chunks\(2\)\.enumerate\(\) \{ if index > 0 \{ formatted\.push\(':'\); \} "
         r"formatted\.push\(chunk\[0\] as char\); formatted\.push\(chunk\[1\] as char\); \}", bn, "normalize: regroup")
    i_len = bn.find("normalized.len() % 2")
    i_hex = bn.find("is_ascii_hexdigit")
    if not (0 <= i_len < i_hex):
        raise Untranslatable("normalize_fingerprint_value: order of checks changed")
    m.raw("Definition FP_SEPARATOR : Z := %d.\nDefinition FP_GROUP : Z := 2." % ord(":"), "normalize_fingerprint_value", SDP)
    _, _, b_col = rs2v.find_fn(sdp, "collect_dtls_fingerprint")
    need(r"if let Some\(existing\) = current \{ if existing != &parsed \{ return Err", norm(b_col), "conflicting fingerprints rule")
    m.raw("Definition fp_conflict_rule : bool := true.", "collect_dtls_fingerprint", SDP)
    # traversal: every session-level attribute, then every attribute of every media section, in
    # order, nothing skipped (Model/Fingerprint.v `collect` folds over exactly that list)
    _, _, b_df = rs2v.find_fn(sdp, "dtls_fingerprint", "SessionDescription")
    if norm(b_df) != ("{ let mut fingerprint = None; for attr in &self.session.attributes { collect_dtls_fingerprint(attr, &mut fingerprint)?; } "
                      "for section in &self.media_sections { for attr in &section.attributes { collect_dtls_fingerprint(attr, &mut fingerprint)?; } } "
                      "Ok(fingerprint) }"):
        raise Untranslatable("SessionDescription::dtls_fingerprint: traversal is not 'all session attributes, then all attributes of all media sections'")
    m.raw("Definition fp_traversal_all_sections : bool := true.", "SessionDescription::dtls_fingerprint traversal", SDP)
    return m


MODULES = {"Dtls": gen_dtls}
