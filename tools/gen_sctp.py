"""C01 / C12 translator plugin: Gen/Sctp.v.

Items taken from src/transports/sctp.rs and src/transports/datachannel.rs (anchored regular
expressions on the comment-stripped source; Untranslatable when the shape is not the expected one):

  * enum SctpState, enum DataChannelState (with its discriminants)
  * handle_data: the duplicate/old test on `diff = tsn - cumulative_tsn_ack` and the fast-path test
  * process_data_payload: the B / E / U flag masks
  * send_data_raw: the flag values written (U base, B on the first, E on the last fragment), the
    per-channel payload cap `dc.max_payload_size.min(DEFAULT_MAX_PAYLOAD_SIZE)`
  * DataChannel::new: default max_payload_size
  * send_dcep_open: the channel_type table and the reliability parameter
  * handle_dcep: its inverse (ordered bit, reliability selector masks)
  * InboundStream::enqueue: the pending cap test
"""
import re

from rs2v import Module, Untranslatable, strip_comments, read, find_fn, find_const

SCTP = "src/transports/sctp.rs"
DC = "src/transports/datachannel.rs"


def _need(rx, body, what, flags=re.S):
    m = re.search(rx, body, flags)
    if not m:
        raise Untranslatable(what + ": expected shape not found")
    return m


def _hex(s):
    return int(s, 16) if s.lower().startswith("0x") else int(s)


H = r"(0x[0-9a-fA-F_]+|\d+)"


def gen_sctp():
    m = Module("Sctp")
    m.add_enum(SCTP, "SctpState")
    m.add_enum(DC, "DataChannelState")
    src = strip_comments(read(SCTP))
    dsrc = strip_comments(read(DC))

    # ---- handle_data: dedup test, fast path
    _, _, body = find_fn(src, "handle_data", "SctpInner")
    _need(r"let\s+diff\s*=\s*tsn\.wrapping_sub\(cumulative_ack\)\s*;", body, "handle_data: diff = tsn.wrapping_sub(cumulative_ack)")
    mm = _need(r"if\s+diff\s*==\s*" + H + r"\s*\|\|\s*diff\s*>\s*" + H + r"\s*\{", body, "handle_data: duplicate test")
    m.raw("Definition data_is_dup (diff : Z) : bool := (Z.eqb diff %d) || (Z.gtb diff %d)." % (_hex(mm.group(1)), _hex(mm.group(2))),
          "handle_data duplicate/old test", SCTP)
    mm = _need(r"if\s+diff\s*==\s*" + H + r"\s*\{\s*let\s+is_queue_empty", body, "handle_data: fast path test")
    m.raw("Definition data_fast_diff : Z := %d." % _hex(mm.group(1)), "handle_data fast-path test", SCTP)
    _need(r"wrapping_add\(1\s*\+\s*to_process\.len\(\)\s+as\s+u32\)", body, "handle_data: drain loop next TSN")
    mm = _need(r"if\s+buf\.remaining\(\)\s*<\s*(\d+)\s*\{\s*return\s+Ok\(\(\)\);", body, "handle_data: minimum chunk length")
    m.raw("Definition data_min_value_len : Z := %s." % mm.group(1), "handle_data minimum DATA value length", SCTP)

    # ---- process_data_payload: flag masks
    _, _, body = find_fn(src, "process_data_payload", "SctpInner")
    b = _need(r"let\s+b_bit\s*=\s*\(flags\s*&\s*" + H + r"\)\s*!=\s*0\s*;", body, "process_data_payload: b_bit")
    e = _need(r"let\s+e_bit\s*=\s*\(flags\s*&\s*" + H + r"\)\s*!=\s*0\s*;", body, "process_data_payload: e_bit")
    us = re.findall(r"let\s+unordered\s*=\s*\(flags\s*&\s*" + H + r"\)\s*!=\s*0\s*;", body)
    if len(us) != 2 or len(set(us)) != 1:
        raise Untranslatable("process_data_payload: expected two identical `unordered` masks, found %r" % us)
    for name, v in (("b", _hex(b.group(1))), ("e", _hex(e.group(1))), ("u", _hex(us[0]))):
        m.raw("Definition rx_flag_%s (flags : Z) : bool := negb (Z.eqb (Z.land flags %d) 0)." % (name, v),
              "process_data_payload %s-bit mask" % name.upper(), SCTP)
    _need(r"if\s+unordered\s*\|\|\s*!dc\.ordered\s*\{", body, "process_data_payload: direct-delivery test")
    # reassembly: clear on B, then append UNCONDITIONALLY, then emit on E -- nothing in between (the model has no
    # size bound; a cap, a discard state or any other statement here must be modelled first)
    _need(r"let\s+mut\s+buffer\s*=\s*dc\.reassembly_buffer\.lock\(\)\s*;\s*if\s+b_bit\s*\{\s*(?:if\s+!buffer\.is_empty\(\)\s*\{\s*debug!\([^;]*\)\s*;\s*\}\s*)?buffer\.clear\(\)\s*;\s*\}\s*"
          r"buffer\.extend_from_slice\(&user_data\)\s*;\s*if\s+e_bit\s*\{\s*let\s+msg\s*=\s*std::mem::take\(&mut\s+\*buffer\)\.freeze\(\)\s*;",
          body, "process_data_payload: reassembly is clear-on-B, unconditional append, emit-on-E")
    m.raw("Definition REASSEMBLY_UNBOUNDED : bool := true.", "process_data_payload reassembly has no size bound", SCTP)
    _need(r"if\s+payload_proto\s*==\s*DATA_CHANNEL_PPID_DCEP\s*\{", body, "process_data_payload: DCEP test")

    # ---- send_data_raw: flags written, payload cap
    _, _, body = find_fn(src, "send_data_raw", "SctpInner")
    mm = _need(r"let\s+flags_base\s*=\s*if\s+!ordered\s*\{\s*" + H + r"\s*\}\s*else\s*\{\s*" + H + r"\s*\}\s*;", body, "send_data_raw: flags_base")
    fu, f0 = _hex(mm.group(1)), _hex(mm.group(2))
    mm = _need(r"if\s+offset\s*==\s*0\s*\{\s*flags\s*\|=\s*" + H + r"\s*;", body, "send_data_raw: B flag")
    fb = _hex(mm.group(1))
    mm = _need(r"if\s+offset\s*\+\s*chunk_payload_size\s*>=\s*total_len\s*\{\s*flags\s*\|=\s*" + H + r"\s*;", body, "send_data_raw: E flag")
    fe = _hex(mm.group(1))
    mm = _need(r"flags:\s*flags_base\s*\|\s*" + H + r"\s*,", body, "send_data_raw: empty-message flags")
    fbe = _hex(mm.group(1))
    m.raw("Definition tx_flags (unordered first last : bool) : Z :=\n"
          "  Z.lor (Z.lor (if unordered then %d else %d) (if first then %d else 0)) (if last then %d else 0)." % (fu, f0, fb, fe),
          "send_data_raw flag values", SCTP)
    m.raw("Definition tx_flags_empty (unordered : bool) : Z := Z.lor (if unordered then %d else %d) %d." % (fu, f0, fbe),
          "send_data_raw empty-message flags", SCTP)
    _need(r"max_payload_size\s*=\s*dc\.max_payload_size\.min\(DEFAULT_MAX_PAYLOAD_SIZE\)\s*;", body, "send_data_raw: payload cap")
    _need(r"let\s+mut\s+max_payload_size\s*=\s*DEFAULT_MAX_PAYLOAD_SIZE\s*;", body, "send_data_raw: default payload cap")
    _need(r"let\s+is_dcep\s*=\s*ppid\s*==\s*DATA_CHANNEL_PPID_DCEP\s*;", body, "send_data_raw: is_dcep")
    _need(r"ordered\s*=\s*if\s+is_dcep\s*\{\s*false\s*\}\s*else\s*\{\s*dc\.ordered\s*\}\s*;", body, "send_data_raw: ordered")
    _need(r"let\s+ssn\s*=\s*if\s+ordered\s*\{\s*dc\.next_ssn\.fetch_add\(1,[^)]*\)\s*\}\s*else\s*\{\s*0\s*\}\s*;", body, "send_data_raw: ssn")

    # ---- DataChannel::new default payload size
    mm = _need(r"max_payload_size:\s*config\.max_payload_size\.unwrap_or\((\d+)\)", dsrc, "DataChannel::new: default max_payload_size")
    m.raw("Definition DC_DEFAULT_MAX_PAYLOAD : Z := %s." % mm.group(1), "DataChannel::new default max_payload_size", DC)

    # ---- send_dcep_open: channel type table
    _, _, body = find_fn(src, "send_dcep_open", "SctpInner")
    inner = (r"if\s+dc\.max_retransmits\.is_some\(\)\s*\{\s*" + H + r"\s*\}\s*else\s+if\s+dc\.max_packet_life_time\.is_some\(\)\s*\{\s*"
             + H + r"\s*\}\s*else\s*\{\s*" + H + r"\s*\}")
    mm = _need(r"let\s+channel_type\s*=\s*if\s+dc\.ordered\s*\{\s*" + inner + r"\s*\}\s*else\s*\{\s*" + inner + r"\s*\}\s*;", body,
               "send_dcep_open: channel_type table")
    t = [_hex(mm.group(i)) for i in range(1, 7)]
    m.raw("Definition dcep_channel_type (ordered has_rex has_life : bool) : Z :=\n"
          "  if ordered then (if has_rex then %d else if has_life then %d else %d)\n"
          "  else (if has_rex then %d else if has_life then %d else %d)." % tuple(t),
          "send_dcep_open channel_type table", SCTP)
    _need(r"let\s+reliability_parameter\s*=\s*if\s+let\s+Some\(r\)\s*=\s*dc\.max_retransmits\s*\{\s*r\s+as\s+u32\s*\}\s*else\s+if\s+let\s+Some\(t\)\s*=\s*"
          r"dc\.max_packet_life_time\s*\{\s*t\s+as\s+u32\s*\}\s*else\s*\{\s*0\s*\}\s*;", body, "send_dcep_open: reliability_parameter")
    m.raw("Definition dcep_rel_param (rex life : option Z) : Z :=\n"
          "  match rex with Some r => cast_u32 r | None => match life with Some t => cast_u32 t | None => 0 end end.",
          "send_dcep_open reliability_parameter", SCTP)
    _need(r"priority:\s*0\s*,", body, "send_dcep_open: priority 0")

    # ---- handle_dcep: inverse table
    _, _, body = find_fn(src, "handle_dcep", "SctpInner")
    mm = _need(r"ordered:\s*\(open\.channel_type\s*&\s*" + H + r"\)\s*==\s*0\s*,", body, "handle_dcep: ordered bit")
    m.raw("Definition dcep_type_ordered (ct : Z) : bool := Z.eqb (Z.land ct %d) 0." % _hex(mm.group(1)), "handle_dcep ordered bit", SCTP)
    mm = _need(r"max_retransmits:\s*if\s*\(open\.channel_type\s*&\s*" + H + r"\)\s*==\s*" + H +
               r"\s*\{\s*Some\(open\.reliability_parameter\s+as\s+u16\)\s*\}\s*else\s*\{\s*None\s*\}\s*,", body, "handle_dcep: max_retransmits selector")
    m.raw("Definition dcep_type_is_rex (ct : Z) : bool := Z.eqb (Z.land ct %d) %d." % (_hex(mm.group(1)), _hex(mm.group(2))),
          "handle_dcep max_retransmits selector", SCTP)
    mm = _need(r"max_packet_life_time:\s*if\s*\(open\.channel_type\s*&\s*" + H + r"\)\s*==\s*" + H +
               r"\s*\{\s*Some\(open\.reliability_parameter\s+as\s+u16\)\s*\}\s*else\s*\{\s*None\s*\}\s*,", body, "handle_dcep: max_packet_life_time selector")
    m.raw("Definition dcep_type_is_timed (ct : Z) : bool := Z.eqb (Z.land ct %d) %d." % (_hex(mm.group(1)), _hex(mm.group(2))),
          "handle_dcep max_packet_life_time selector", SCTP)
    _need(r"negotiated:\s*None\s*,", body, "handle_dcep: created channels are not negotiated")
    _need(r"if\s+!found\s*\{", body, "handle_dcep: found test")

    # ---- InboundStream::enqueue cap test
    _, _, body = find_fn(src, "enqueue", "InboundStream")
    _need(r"if\s+self\.pending\.len\(\)\s*>=\s*MAX_INBOUND_STREAM_PENDING\s*\{", body, "InboundStream::enqueue: cap test")

    # ---- advertised_rwnd: queue-length backpressure threshold, byte-based window
    _, _, body = find_fn(src, "advertised_rwnd", "SctpInner")
    mm = _need(r"if\s+rq_len\s*>=\s*\(MAX_RECEIVED_QUEUE_SIZE\s*\*\s*(\d+)\s*/\s*(\d+)\)\.max\((\d+)\)\s*\{\s*return\s+0\s*;", body,
               "advertised_rwnd: queue-length threshold")
    m.raw("Definition rwnd_zero_queue_len (max_received_queue_size : Z) : Z := Z.max (Z.quot (Z.mul max_received_queue_size %s) %s) %s." % (mm.group(1), mm.group(2), mm.group(3)),
          "advertised_rwnd queue-length threshold", SCTP)
    _need(r"let\s+byte_based\s*=\s*self\.local_rwnd\.saturating_sub\(used\)\s*;", body, "advertised_rwnd: byte-based window")
    _need(r"byte_based\.try_into\(\)\.unwrap_or\(0\)", body, "advertised_rwnd: u32 conversion")

    # ---- handle_reconfig: the parameter walk (value WITHOUT padding, padding skipped separately)
    _, _, body = find_fn(src, "handle_reconfig", "SctpInner")
    _need(r"while\s+buf\.remaining\(\)\s*>=\s*4\s*\{\s*let\s+param_type\s*=\s*buf\.get_u16\(\)\s*;\s*let\s+param_length\s*=\s*buf\.get_u16\(\)\s+as\s+usize\s*;",
          body, "handle_reconfig: parameter header")
    mm = _need(r"if\s+param_length\s*<\s*(\d+)\s*\|\|\s*buf\.remaining\(\)\s*<\s*param_length\s*-\s*(\d+)\s*\{\s*break\s*;\s*\}\s*"
               r"let\s+param_data\s*=\s*buf\.split_to\(param_length\s*-\s*(\d+)\)\s*;", body, "handle_reconfig: length test and value split")
    if len({mm.group(1), mm.group(2), mm.group(3)}) != 1:
        raise Untranslatable("handle_reconfig: inconsistent parameter header lengths %r" % (mm.groups(),))
    m.raw("Definition RECONFIG_PARAM_HEADER_LEN : Z := %s." % mm.group(1), "handle_reconfig parameter header length", SCTP)
    _need(r"let\s+padding\s*=\s*\(4\s*-\s*\(param_length\s*%\s*4\)\)\s*%\s*4\s*;\s*if\s+buf\.remaining\(\)\s*>=\s*padding\s*\{\s*buf\.advance\(padding\)\s*;\s*\}",
          body, "handle_reconfig: padding skipped after the value")
    _need(r"RECONFIG_PARAM_OUTGOING_SSN_RESET\s*=>\s*\{\s*self\.handle_reconfig_outgoing_ssn_reset\(param_data\)", body,
          "handle_reconfig: the SSN reset handler gets the unpadded value")
    _, _, body = find_fn(src, "handle_reconfig_outgoing_ssn_reset", "SctpInner")
    mm = _need(r"if\s+buf\.remaining\(\)\s*<\s*(\d+)\s*\{\s*return\s+Ok\(\(\)\)\s*;", body, "handle_reconfig_outgoing_ssn_reset: fixed fields")
    m.raw("Definition SSN_RESET_FIXED_LEN : Z := %s." % mm.group(1), "handle_reconfig_outgoing_ssn_reset fixed field length", SCTP)
    _need(r"while\s+buf\.remaining\(\)\s*>=\s*2\s*\{\s*streams\.push\(buf\.get_u16\(\)\)\s*;", body, "handle_reconfig_outgoing_ssn_reset: stream list")
    _need(r"if\s+request_sn\s*<=\s*last_peer_sn\s*&&\s*last_peer_sn\s*!=\s*u32::MAX\s*\{", body, "handle_reconfig_outgoing_ssn_reset: duplicate request test")
    _need(r"if\s+streams\.is_empty\(\)\s*\{\s*inbound\.clear\(\)\s*;\s*\}\s*else\s*\{\s*for\s+&sid\s+in\s+&streams\s*\{\s*inbound\.remove\(&sid\)\s*;", body,
          "handle_reconfig_outgoing_ssn_reset: inbound stream reset")

    # ---- DataChannelOpen::unmarshal minimum length
    _, _, body = find_fn(dsrc, "unmarshal", "DataChannelOpen")
    mm = _need(r"if\s+buf\.remaining\(\)\s*<\s*(\d+)\s*\{", body, "DataChannelOpen::unmarshal: minimum length")
    m.raw("Definition DCEP_OPEN_MIN_LEN : Z := %s." % mm.group(1), "DataChannelOpen::unmarshal minimum length", DC)
    return m


MODULES = {"Sctp": gen_sctp}
