"""rs2v plugin for C04/C05: Gen/SrtpArith.v

Translated from /repo/src/srtp.rs on every run:
  * enum SrtpProfile and the tables SrtpProfile::{tag_len, salt_len, key_len, auth_key_len}
    (plus rtcp_tag_len when the source has it)
  * SrtpContext::estimate_roc (whole function)
  * the index comparison of SrtpContext::update (`update_newer`), with the statement skeleton of
    `update` checked verbatim (the assignments themselves are hand-modelled in Model/Srtp.v)
  * the E-bit / index masks of protect_rtcp / unprotect_rtcp
  * the byte offsets at which SSRC / ROC / SEQ / SRTCP index are XORed into the IV / nonce
  * the ORDER of "advance rtcp_index" and "authenticate" in both branches of unprotect_rtcp
    (`rtcp_gcm_update_after_auth`, `rtcp_hmac_update_after_auth`) and of `self.update` vs the
    authentication in `unprotect` (`rtp_update_after_auth`): C05's theorems are stated over the model
    parameterised by these flags, so moving the statement changes what is proved about.
Anything that no longer has the expected shape raises Untranslatable (never guessed).
"""
import re
import sys

# rs2v.py runs as __main__; importing it again would give a second Untranslatable class that its
# main() does not catch -- use the running instance when there is one
_m = sys.modules.get("__main__")
if _m is not None and hasattr(_m, "Module") and hasattr(_m, "Untranslatable"):
    rs2v = _m
else:
    import rs2v
Module, Untranslatable, P, tokenize = rs2v.Module, rs2v.Untranslatable, rs2v.P, rs2v.tokenize
strip_comments, read, find_fn = rs2v.strip_comments, rs2v.read, rs2v.find_fn

PATH = "src/srtp.rs"


def norm(s):
    return re.sub(r"\s+", " ", s).strip()


def profile_table(m, src, name):
    """fn name(&self) -> usize { match self { Self::A | Self::B => n, ... } }  or a bare literal"""
    params, ret, body = find_fn(src, name, "SrtpProfile")
    if norm(params) != "&self" or ret != "usize":
        raise Untranslatable("SrtpProfile::%s: unexpected signature (%s) -> %s" % (name, params, ret))
    body = body.replace("Self::", "SrtpProfile::")
    ast = P(tokenize(body)).parse_block()
    env = {"self": ("p", "SrtpProfile")}
    s, t = m.gen.block(ast, env, "usize")
    m.gen.fns[name] = (["SrtpProfile"], "usize")
    m.lines.append("Definition %s (p : SrtpProfile) : Z :=\n  %s." % (name, s))
    m.manifest.append({"item": "fn SrtpProfile::" + name, "file": PATH})


def gen_update(m, src):
    params, ret, body = find_fn(src, "update", "SrtpContext")
    if norm(params) != "&mut self, sequence: u16, roc: u32":
        raise Untranslatable("SrtpContext::update: unexpected parameters: " + norm(params))
    rx = re.compile(
        r"^\{\s*if self\.last_sequence\.is_none\(\) \{ self\.last_sequence = Some\(sequence\); "
        r"self\.rollover_counter = roc; return; \} "
        r"let current_index = (?P<cur>[^;]+); let new_index = (?P<new>[^;]+); "
        r"if (?P<cond>[^{]+) \{ self\.rollover_counter = roc; self\.last_sequence = Some\(sequence\); \} \}$")
    mm = rx.match(norm(body))
    if not mm:
        raise Untranslatable("SrtpContext::update: statement skeleton changed: " + norm(body)[:200])
    cur = mm.group("cur").replace("self.last_sequence.unwrap()", "last_seq").replace("self.rollover_counter", "self_roc")
    if "self" in cur.replace("self_roc", ""):
        raise Untranslatable("SrtpContext::update: current_index uses unexpected state: " + cur)
    env = {"self_roc": ("self_roc", "u32"), "last_seq": ("last_seq", "u16"),
           "sequence": ("sequence", "u16"), "roc": ("roc", "u32")}
    scur, tcur = m.gen.expr(P(tokenize(cur)).parse_expr(), env, None)
    snew, tnew = m.gen.expr(P(tokenize(mm.group("new"))).parse_expr(), env, None)
    env2 = dict(env, current_index=("current_index", tcur), new_index=("new_index", tnew))
    scond, tc = m.gen.expr(P(tokenize(mm.group("cond"))).parse_expr(), env2, "bool")
    if tc != "bool":
        raise Untranslatable("SrtpContext::update: condition is not boolean")
    m.lines.append("Definition update_newer (self_roc : Z) (last_seq : Z) (sequence : Z) (roc : Z) : bool :=\n"
                   "  (let current_index := %s in (let new_index := %s in %s))." % (scur, snew, scond))
    m.manifest.append({"item": "fn SrtpContext::update (index comparison + statement skeleton)", "file": PATH})


def int_of(tok):
    return rs2v.parse_int(tok)[0]


def gen_masks(m, src):
    _, _, pb = find_fn(src, "protect_rtcp", "SrtpContext")
    _, _, ub = find_fn(src, "unprotect_rtcp", "SrtpContext")
    e = re.findall(r"index_with_e = index \| (0x[0-9A-Fa-f_]+);", pb)
    if len(e) != 1:
        raise Untranslatable("protect_rtcp: E-bit constant not found")
    idx = re.findall(r"let index = index_with_e & (0x[0-9A-Fa-f_]+);", ub)
    eb = re.findall(r"let e_bit = \(index_with_e & (0x[0-9A-Fa-f_]+)\) != 0;", ub)
    if len(idx) != 2 or len(set(idx)) != 1 or len(eb) != 1:
        raise Untranslatable("unprotect_rtcp: index / E-bit masks not found (%r, %r)" % (idx, eb))
    if norm(pb).count("self.rtcp_index += 1; let index = self.rtcp_index;") != 1:
        raise Untranslatable("protect_rtcp: index increment changed")
    m.raw("Definition SRTCP_E_BIT : Z := %d.\nDefinition SRTCP_E_MASK : Z := %d.\nDefinition SRTCP_INDEX_MASK : Z := %d."
          % (int_of(e[0]), int_of(eb[0]), int_of(idx[0])), "SRTCP E-bit and index masks", PATH)
    # session-level length guards
    _, _, sp = find_fn(src, "protect_rtcp", "SrtpSession")
    _, _, su = find_fn(src, "unprotect_rtcp", "SrtpSession")
    a = re.search(r"if packet\.len\(\) < (\d+) \{ return Err\(SrtpError::PacketTooShort\); \}", norm(sp))
    b = re.search(r"if packet\.len\(\) < (\d+) \{ return Err\(SrtpError::PacketTooShort\); \}", norm(su))
    if not a or not b:
        raise Untranslatable("SrtpSession::{protect,unprotect}_rtcp: length guards not found")
    m.raw("Definition SESSION_RTCP_MIN_PLAIN : Z := %s.\nDefinition SESSION_RTCP_MIN_PROTECTED : Z := %s." % (a.group(1), b.group(1)),
          "SrtpSession RTCP length guards", PATH)


def gen_offsets(m, src):
    def offs(fn, pairs):
        _, _, body = find_fn(src, fn, "SrtpContext")
        out = {}
        for key, rhs in pairs:
            mm = re.findall(r"block\[(\d+)\.\.(\d+)\]\.copy_from_slice\(&%s\.to_be_bytes\(\)\);" % re.escape(rhs), body)
            if len(mm) != 1:
                raise Untranslatable("%s: offset of %s not found" % (fn, rhs))
            out[key] = (int(mm[0][0]), int(mm[0][1]))
        return body, out
    lines = []
    body, o = offs("build_iv", [("ssrc", "self.ssrc"), ("index", "iv_part")])
    if "let index = ((roc as u64) << 16) | sequence as u64;" not in norm(body) or "let iv_part = index << 16;" not in norm(body):
        raise Untranslatable("build_iv: index expression changed")
    if "iv[..14].copy_from_slice(&self.rtp_keys.salt[..14]);" not in norm(body):
        raise Untranslatable("build_iv: salt placement changed")
    lines.append("Definition IV_SSRC_OFF : Z := %d.\nDefinition IV_INDEX_OFF : Z := %d." % (o["ssrc"][0], o["index"][0]))
    body, o = offs("cipher_rtcp", [("ssrc", "self.ssrc"), ("index", "index")])
    if "iv[..14].copy_from_slice(&self.rtcp_keys.salt[..14]);" not in norm(body) or "apply_keystream(&mut packet[8..]);" not in norm(body):
        raise Untranslatable("cipher_rtcp: salt placement / encrypted range changed")
    lines.append("Definition RTCP_IV_SSRC_OFF : Z := %d.\nDefinition RTCP_IV_INDEX_OFF : Z := %d." % (o["ssrc"][0], o["index"][0]))
    body, o = offs("build_gcm_nonce", [("ssrc", "self.ssrc"), ("roc", "roc"), ("seq", "sequence")])
    lines.append("Definition GCM_SSRC_OFF : Z := %d.\nDefinition GCM_ROC_OFF : Z := %d.\nDefinition GCM_SEQ_OFF : Z := %d."
                 % (o["ssrc"][0], o["roc"][0], o["seq"][0]))
    body, o = offs("build_gcm_rtcp_nonce", [("ssrc", "self.ssrc"), ("index", "index")])
    lines.append("Definition GCM_RTCP_SSRC_OFF : Z := %d.\nDefinition GCM_RTCP_INDEX_OFF : Z := %d." % (o["ssrc"][0], o["index"][0]))
    m.raw("\n".join(lines), "IV / nonce field offsets (build_iv, cipher_rtcp, build_gcm_nonce, build_gcm_rtcp_nonce)", PATH)


def gen_order(m, src):
    """position of the state update relative to authentication"""
    _, _, ub = find_fn(src, "unprotect_rtcp", "SrtpContext")
    ub = norm(ub)
    k = ub.find("return Ok(()); }")
    if k < 0:
        raise Untranslatable("unprotect_rtcp: GCM branch end not found")
    gcm, hm = ub[:k], ub[k:]
    upd = "if index > self.rtcp_index { self.rtcp_index = index; }"
    if gcm.count(upd) != 1 or hm.count(upd) != 1:
        raise Untranslatable("unprotect_rtcp: expected one rtcp_index update per branch")
    dec = gcm.find(".map_err(|_| SrtpError::AuthenticationFailed)?;")
    if dec < 0 or gcm.count(".decrypt(") != 1:
        raise Untranslatable("unprotect_rtcp: GCM decrypt not found")
    auth = hm.find("return Err(SrtpError::AuthenticationFailed);")
    if auth < 0:
        raise Untranslatable("unprotect_rtcp: HMAC verification not found")
    g_after = gcm.find(upd) > dec
    h_after = hm.find(upd) > auth
    _, _, rb = find_fn(src, "unprotect", "SrtpContext")
    rb = norm(rb)
    if rb.count("self.update(sequence_number, roc);") != 1:
        raise Untranslatable("unprotect: expected exactly one self.update call")
    last_err = max(rb.rfind("SrtpError::AuthenticationFailed"), rb.rfind("return Err("), rb.rfind("?;"))
    r_after = rb.find("self.update(sequence_number, roc);") > last_err
    b = lambda x: "true" if x else "false"
    m.raw("Definition rtcp_gcm_update_after_auth : bool := %s.\nDefinition rtcp_hmac_update_after_auth : bool := %s.\n"
          "Definition rtp_update_after_auth : bool := %s." % (b(g_after), b(h_after), b(r_after)),
          "order of state update vs authentication in unprotect / unprotect_rtcp", PATH)


def gen_tagcmp(m, src):
    """the authentication-tag comparison: constant_time_eq over the FULL profile tag length, verbatim"""
    def need(body, what, frag):
        if norm(body).count(frag) != 1:
            raise Untranslatable("%s: expected exactly once: %s" % (what, frag))
    _, _, ct = find_fn(src, "constant_time_eq")
    if norm(ct) != norm("""{ if a.len() != b.len() { return false; } let mut diff = 0u8;
            for (x, y) in a.iter().zip(b.iter()) { diff |= x ^ y; } diff == 0 }"""):
        raise Untranslatable("constant_time_eq: body changed: " + norm(ct)[:160])
    if len(re.findall(r"constant_time_eq\(", src)) != 3:
        raise Untranslatable("constant_time_eq: expected the definition and exactly two call sites")
    _, _, ub = find_fn(src, "unprotect", "SrtpContext")
    need(ub, "unprotect", "let tag_len = self._profile.tag_len();")
    need(ub, "unprotect", "if packet.body.len() < tag_len { return Err(SrtpError::PacketTooShort); }")
    if norm(ub).count("let split = packet.body.len() - tag_len;") != 2:
        raise Untranslatable("unprotect: tag split changed")
    need(ub, "unprotect", "mac.update(&self.auth_scratch); mac.update(&packet.body[..split]); mac.update(&roc.to_be_bytes()); let result = mac.finalize().into_bytes(); "
         "if !constant_time_eq(&packet.body[split..], &result[..tag_len]) { return Err(SrtpError::AuthenticationFailed); }")
    need(ub, "unprotect", "let tag = aes_gcm::Tag::clone_from_slice(&packet.body[split..]);")
    _, _, pb = find_fn(src, "protect", "SrtpContext")
    need(pb, "protect", "let tag_len = self._profile.tag_len();")
    need(pb, "protect", "mac.update(&output[..body_end]); mac.update(&roc.to_be_bytes()); let result = mac.finalize().into_bytes(); output[body_end..].copy_from_slice(&result[..tag_len]);")
    _, _, urb = find_fn(src, "unprotect_rtcp", "SrtpContext")
    need(urb, "unprotect_rtcp", "let tag_len = self._profile.rtcp_tag_len();")
    need(urb, "unprotect_rtcp", "if packet.len() < tag_len + 4 { return Err(SrtpError::PacketTooShort); }")
    need(urb, "unprotect_rtcp", "let split = packet.len() - tag_len; let mut tag = [0u8; SHA1_LEN]; tag[..tag_len].copy_from_slice(&packet[split..split + tag_len]); packet.truncate(split);")
    need(urb, "unprotect_rtcp", "let mut expected = [0u8; SHA1_LEN]; self.auth_tag_rtcp_into(packet, &mut expected)?; "
         "if !constant_time_eq(&tag[..tag_len], &expected[..tag_len]) { return Err(SrtpError::AuthenticationFailed); }")
    _, _, prb = find_fn(src, "protect_rtcp", "SrtpContext")
    need(prb, "protect_rtcp", "let mut tag = [0u8; SHA1_LEN]; self.auth_tag_rtcp_into(packet, &mut tag)?; packet.extend_from_slice(&tag[..self._profile.rtcp_tag_len()]);")
    _, _, ab = find_fn(src, "auth_tag_rtcp_into", "SrtpContext")
    need(ab, "auth_tag_rtcp_into", "mac.update(data); out.copy_from_slice(&mac.finalize().into_bytes());")
    m.raw("Definition tag_compare_full_length : bool := true.",
          "authentication tag comparison (constant_time_eq body, both call sites, tag slices over tag_len / rtcp_tag_len) verbatim", PATH)


def gen_session(m, src):
    """SrtpSession receive path: state changes only after the operation succeeded (with_rx_context verbatim)"""
    _, _, wb = find_fn(src, "with_rx_context", "SrtpSession")
    want = """{ let out = match self.rx_contexts.get_mut(&ssrc) {
        Some(ctx) => { let out = op(ctx)?; ctx.last_used = std::time::Instant::now(); out }
        None => { let mut ctx = SrtpContext::new( ssrc, self.profile, self.rx_keying.clone(), SrtpDirection::Receiver, )?;
                  let out = op(&mut ctx)?; self.rx_contexts.insert(ssrc, ctx); out } };
        self.evict_stale_rx(ssrc); Ok(out) }"""
    if norm(wb) != norm(want):
        raise Untranslatable("SrtpSession::with_rx_context: body changed: " + norm(wb)[:200])
    _, _, a = find_fn(src, "unprotect_rtp", "SrtpSession")
    if norm(a) != norm("{ let ssrc = packet.header.ssrc; self.with_rx_context(ssrc, |ctx| ctx.unprotect(packet)) }"):
        raise Untranslatable("SrtpSession::unprotect_rtp: body changed")
    _, _, b = find_fn(src, "unprotect_rtcp", "SrtpSession")
    if not norm(b).endswith("let ssrc = u32::from_be_bytes([packet[4], packet[5], packet[6], packet[7]]); self.with_rx_context(ssrc, |ctx| ctx.unprotect_rtcp(packet)) }"):
        raise Untranslatable("SrtpSession::unprotect_rtcp: body changed")
    for fn, keep in (("evict_stale_rx", "rx_contexts"), ("evict_stale_tx", "tx_contexts")):
        _, _, e = find_fn(src, fn, "SrtpSession")
        if norm(e) != norm("""{ if self.%s.len() <= SSRC_CONTEXT_HIGH_WATERMARK { return; } let now = std::time::Instant::now();
                self.%s.retain(|s, c| { *s == keep_ssrc || now.duration_since(c.last_used) < SSRC_INACTIVITY_EVICT }); }""" % (keep, keep)):
            raise Untranslatable("SrtpSession::%s: body changed" % fn)
    m.raw("Definition session_rx_commit_after_auth : bool := true.",
          "SrtpSession::with_rx_context / unprotect_rtp / unprotect_rtcp / evict_stale_* (verbatim skeletons)", PATH)


def gen_setup(m):
    """setup_srtp (src/peer_connection.rs): profile code table, key/salt lengths, exporter slicing, role swap"""
    path = "src/peer_connection.rs"
    src = strip_comments(read(path))
    _, _, body = find_fn(src, "setup_srtp")
    b = norm(body)
    mm = re.search(r"let profile = match profile_opt \{ (.*?) \};", b)
    if not mm:
        raise Untranslatable("setup_srtp: profile table not found")
    arms = [a.strip() for a in mm.group(1).split(",") if a.strip()]
    cases = []
    default = None
    for a in arms:
        m1 = re.match(r"^Some\((0x[0-9A-Fa-f_]+|\d+)\) => crate::srtp::SrtpProfile::(\w+)$", a)
        m2 = re.match(r"^_ => crate::srtp::SrtpProfile::(\w+)$", a)
        if m1:
            cases.append((int_of(m1.group(1)), m1.group(2)))
        elif m2:
            default = m2.group(1)
        else:
            raise Untranslatable("setup_srtp: unexpected profile arm: " + a)
    if default is None:
        raise Untranslatable("setup_srtp: no default profile arm")
    for _, v in cases + [(0, default)]:
        if v not in m.gen.enums["SrtpProfile"]:
            raise Untranslatable("setup_srtp: unknown profile variant " + v)
    body_s = "match code with None => SrtpProfile_%s | Some z => %s end" % (
        default, "".join("if Z.eqb z %d then SrtpProfile_%s else " % (k, v) for k, v in cases) + "SrtpProfile_" + default)
    m.raw("Definition setup_profile (code : option Z) : SrtpProfile :=\n  %s." % body_s, "fn setup_srtp (profile code table)", path)

    def table(name):
        mm = re.search(r"let %s = match profile \{ (.*?) \};" % name, b)
        if not mm:
            raise Untranslatable("setup_srtp: %s table not found" % name)
        out = []
        dflt = None
        for a in [x.strip() for x in mm.group(1).split(",") if x.strip()]:
            m1 = re.match(r"^crate::srtp::SrtpProfile::(\w+) => (\d+)$", a)
            m2 = re.match(r"^_ => (\d+)$", a)
            if m1:
                out.append((m1.group(1), m1.group(2)))
            elif m2:
                dflt = m2.group(1)
            else:
                raise Untranslatable("setup_srtp: unexpected %s arm: %s" % (name, a))
        if dflt is None and len(out) != len(m.gen.enums["SrtpProfile"]):
            raise Untranslatable("setup_srtp: %s table not exhaustive" % name)
        return "match p with %s%s end" % (" ".join("| SrtpProfile_%s => %s" % kv for kv in out), (" | _ => %s" % dflt) if dflt else "")
    m.raw("Definition setup_key_len (p : SrtpProfile) : Z := %s.\nDefinition setup_salt_len (p : SrtpProfile) : Z := %s."
          % (table("key_len"), table("salt_len")), "fn setup_srtp (key_len / salt_len tables)", path)
    expected = [
        "let total_len = 2 * (key_len + salt_len);",
        'dtls.export_keying_material("EXTRACTOR-dtls_srtp", total_len)',
        "let client_key = &mat[0..key_len];",
        "let server_key = &mat[key_len..2 * key_len];",
        "let client_salt = &mat[2 * key_len..2 * key_len + salt_len];",
        "let server_salt = &mat[2 * key_len + salt_len..];",
        "let (tx_key, tx_salt, rx_key, rx_salt) = if is_client { (client_key, client_salt, server_key, server_salt) } else { (server_key, server_salt, client_key, client_salt) };",
        "let tx_keying = crate::srtp::SrtpKeyingMaterial::new(tx_key.to_vec(), tx_salt.to_vec());",
        "let rx_keying = crate::srtp::SrtpKeyingMaterial::new(rx_key.to_vec(), rx_salt.to_vec());",
        "crate::srtp::SrtpSession::new(profile, tx_keying, rx_keying)",
    ]
    for e in expected:
        if e not in b:
            raise Untranslatable("setup_srtp: expected statement not found: " + e)
    m.raw("Definition setup_slicing_as_modelled : bool := true.", "fn setup_srtp (exporter slicing and role swap, verbatim check)", path)


def gen_srtp_arith():
    m = Module("SrtpArith")
    src = strip_comments(read(PATH))
    m.add_enum(PATH, "SrtpProfile")
    names = ["tag_len", "salt_len", "key_len", "auth_key_len"]
    has_rtcp_tag = re.search(r"fn\s+rtcp_tag_len\s*\(", src) is not None
    if has_rtcp_tag:
        names.append("rtcp_tag_len")
    for n in names:
        profile_table(m, src, n)
    if not has_rtcp_tag:
        m.raw("Definition rtcp_tag_len (p : SrtpProfile) : Z := tag_len p.", "rtcp tag length = tag_len (no separate table in the source)", PATH)
    mm = re.search(r"const SSRC_INACTIVITY_EVICT: std::time::Duration = std::time::Duration::from_secs\((\d+)\);", norm(src))
    if not mm:
        raise Untranslatable("SSRC_INACTIVITY_EVICT: expected Duration::from_secs(<literal>)")
    m.raw("Definition SSRC_INACTIVITY_EVICT_SECS : Z := %s." % mm.group(1), "const SSRC_INACTIVITY_EVICT", PATH)
    m.add_fn(PATH, "estimate_roc", impl="SrtpContext")
    gen_update(m, src)
    gen_masks(m, src)
    gen_offsets(m, src)
    gen_order(m, src)
    gen_tagcmp(m, src)
    gen_session(m, src)
    gen_setup(m)
    return m


MODULES = {"SrtpArith": gen_srtp_arith}
