#!/usr/bin/env python3
"""Assemble MANIFEST.json from manifest.d/*.json (one check entry per claimed property)."""
import glob
import json
import os
ROOT = os.path.dirname(os.path.dirname(os.path.abspath(__file__)))
props = [json.loads(l) for l in open(os.path.join(ROOT, "properties.jsonl"))]
enabled = open(os.path.join(ROOT, "manifest.d", "ENABLED")).read().split()
checks = [json.load(open(p)) for p in sorted(glob.glob(os.path.join(ROOT, "manifest.d", "C*.json")))
          if os.path.basename(p)[:-5] in enabled]
claimed = {c["property_id"] for c in checks}
na_path = os.path.join(ROOT, "manifest.d", "not_applicable.json")
na_reasons = json.load(open(na_path)) if os.path.exists(na_path) else {}
hooks = json.load(open(os.path.join(ROOT, "manifest.d", "hooks.json")))
import subprocess
log = subprocess.run(["git", "-C", "/repo", "log", "--format=%h %s"], stdout=subprocess.PIPE, text=True).stdout.split("\n")
hooks["source_commits"] = [l.split()[0] for l in log if l[8:].startswith("verif hook")]
m = {
    "version": 1,
    "setup_cmd": "./setup.sh",
    "hooks": hooks,
    "engines": [{"name": "coq-model+correspondence", "path": "/verif/check", "serves_properties": sorted(claimed),
                 "kind_free_text": "Coq 8.16 models + theorems (coq/), translator tools/rs2v.py regenerating coq/Gen from /repo, Rust differential harness (harness/), vm_compute model runner, driver tools/check.py"}],
    "checks": checks,
    "notes": "See DESIGN.md. Every check is ./check <id> <tier>: regenerate Gen, rebuild proofs, audit assumptions, rebuild harness against /repo, run implementation + direct oracle, run model, classify.",
    "not_applicable": [{"property_id": p["id"], "reason": na_reasons.get(p["id"], "check not yet built in this revision (planned, see DESIGN.md §5); not a claim that the technique cannot apply")}
                       for p in props if p["id"] not in claimed],
}
json.dump(m, open(os.path.join(ROOT, "MANIFEST.json"), "w"), indent=1)
print("MANIFEST.json: %d checks, %d not claimed" % (len(checks), len(m["not_applicable"])))
