#!/usr/bin/env python3
"""print the standard prompt for an independent 'bug author' sub-agent (property text only)"""
import json, sys
pid = sys.argv[1]
hint = sys.argv[2] if len(sys.argv) > 2 else ""
p = [json.loads(l) for l in open('/verif/properties.jsonl') if json.loads(l)['id'] == pid][0]
print(f"""You are a software engineer asked to play "bug author" for a robustness study of the Rust crate `rustrtc` (a WebRTC stack). You have your own scratch git worktree of the repository at /tmp/mut/{pid} — work ONLY there (never touch /repo or /verif, and do not read anything under /verif). The machine is offline: use `cargo ... --offline`; set `CARGO_TARGET_DIR=/tmp/mut/{pid}/target` so your build output stays inside your worktree. The machine is shared with many other jobs: build only what you need.

Here is a semantic property the library is supposed to satisfy:

"{p['title']}. {p['statement']}" (Quantified over: {p['quantifier']['text']}.) The relevant code is in: {', '.join(p['anchors']['files'])}.

Your task: produce THREE different, independent, realistic changes to the library source (each as its own patch against the worktree's HEAD) that each BREAK this property while the crate still compiles and the existing test suite still passes. Spread them over different aspects of the property. Prefer subtle changes that need something specific to manifest — a particular interleaving, a fault at a particular point, a multi-step sequence of operations, an unusual input (wraparound, boundary size, a tie, an empty value), or two cooperating edits that each look fine alone — NOT ones that ordinary use would expose at once. They should look like plausible refactoring slips or "optimisations" a maintainer might actually commit. {hint}

For each change i = 1..3:
1. Make the edit in the worktree, then save it: `mkdir -p /tmp/mut/{pid}/out/change_i && cd /tmp/mut/{pid} && git diff > /tmp/mut/{pid}/out/change_i/patch.diff`.
2. Write a demonstration: a small Rust test file (`tests/demo_change_i.rs`, using the crate's public API; look at the existing unit/integration tests of the files above for how to drive the code) that FAILS with the change applied and PASSES without it. Save a copy as /tmp/mut/{pid}/out/change_i/demo.rs. Verify both directions yourself (with the change, and after `git stash` / `git checkout -- src`).
3. Confirm the existing suite still passes with the change: the affected module's tests first (`cargo test --offline --lib <module>::`), and for each final candidate the full suite `cargo nextest run --workspace --no-fail-fast --test-threads 8 --offline` (about 3 min after the build; exactly one pre-existing failure `peer_connection::tests::reinvite_answer_audio_codecs_follow_remote_offer_subset` is expected and does not count; move your demo file out of tests/ for that run). If an existing test fails because of your change, the change is not acceptable — revise it.
4. Write /tmp/mut/{pid}/out/change_i/meta.json: {{"property": "{pid}", "summary": "...", "what_it_needs_to_manifest": "...", "files": [...], "commands_run": [...], "existing_tests": "which you ran and the result"}}.
5. Revert the worktree to HEAD (`git checkout -- . && rm -f tests/demo_change_i.rs`) before starting the next change.

When done, delete the build output (`rm -rf /tmp/mut/{pid}/target`) but keep /tmp/mut/{pid}/out. Final message: for each change a 3-line description (what, why it is subtle, what triggers it) and the confirmation of what you ran.""")
