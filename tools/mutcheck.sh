#!/bin/bash
# Run ./check <ID> quick against a *scratch copy* of /repo with a patch applied, without
# disturbing /repo (other work may be building against it). Usage:
#   tools/mutcheck.sh <patch.diff> <ID> [tier]
# Uses one of three scratch slots /tmp/vscratch-<k> (+ /tmp/vscratch-repo-<k>), each with its own
# cargo target dir; a slot is held under flock for the duration of the run.
set -u
PATCH="$(readlink -f "$1")"; ID="$2"; TIER="${3:-quick}"
SLOT=""
for k in 0 1 2; do
  exec 9>/tmp/vscratch-$k.lock
  if flock -n 9; then SLOT=$k; break; fi
done
if [ -z "$SLOT" ]; then exec 9>/tmp/vscratch-0.lock; flock 9; SLOT=0; fi
S=/tmp/vscratch-$SLOT; R=/tmp/vscratch-repo-$SLOT
mkdir -p $S
rsync -a --delete --exclude .cache --exclude .git --exclude replays --exclude evidence /verif/ $S/
mkdir -p $S/evidence $S/replays
rm -rf $R && mkdir -p $R && git -C /repo archive HEAD | tar -x -C $R && cp /repo/Cargo.lock $R/
( cd $R && git init -q . >/dev/null 2>&1; git apply --whitespace=nowarn "$PATCH" ) || { echo "mutcheck: patch does not apply to /repo HEAD"; exit 3; }
sed -i "s#path = \"/repo\"#path = \"$R\"#" $S/harness/Cargo.toml
sed -i "s#/verif/.cache/target#$S/.cache/target#" $S/harness/.cargo/config.toml
cd $S && RV_REPO=$R ./check "$ID" "$TIER"
rc=$?
echo "mutcheck: exit $rc (slot $SLOT)"
exit $rc
