#!/bin/bash
# Run ./check <ID> quick against a *scratch copy* of /repo with a patch applied, without
# disturbing /repo (other work may be building against it). Usage:
#   tools/mutcheck.sh <patch.diff> <ID> [tier]
# Uses /tmp/vscratch (a copy of /verif whose harness points at /tmp/vscratch-repo).
set -u
# one run at a time: the scratch copies and their cargo target dir are shared between invocations
exec 9>/tmp/vscratch.lock; flock 9
PATCH="$(readlink -f "$1")"; ID="$2"; TIER="${3:-quick}"
S=/tmp/vscratch; R=/tmp/vscratch-repo
mkdir -p $S
rsync -a --delete --exclude .cache --exclude .git --exclude replays --exclude evidence /verif/ $S/
mkdir -p $S/evidence $S/replays
rm -rf $R && mkdir -p $R && git -C /repo archive HEAD | tar -x -C $R && cp /repo/Cargo.lock $R/
( cd $R && git init -q . >/dev/null 2>&1; git apply --whitespace=nowarn "$PATCH" ) || { echo "mutcheck: patch does not apply to /repo HEAD"; exit 3; }
sed -i "s#path = \"/repo\"#path = \"$R\"#" $S/harness/Cargo.toml
sed -i "s#/verif/.cache/target#$S/.cache/target#" $S/harness/.cargo/config.toml
cd $S && RV_REPO=$R ./check "$ID" "$TIER"
rc=$?
echo "mutcheck: exit $rc"
exit $rc
