"""Per-property configuration of the check driver: one JSON file per property in tools/props.d/."""
import glob
import json
import os

PROPS = {}
for _p in sorted(glob.glob(os.path.join(os.path.dirname(os.path.abspath(__file__)), "props.d", "*.json"))):
    PROPS[os.path.basename(_p)[:-5]] = json.load(open(_p))
