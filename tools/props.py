"""Per-property configuration of the check driver."""
PROPS = {
    "C18": {
        "bin": "c18",
        "run_imports": ["Model.Latch", "Run.C18Run"],
        "shard": 300,
        "rule": "corpus (known witnesses) + exhaustive suffixes of length 3 (quick) / 4 (thorough) over a 15-letter alphabet "
                "{source A/B/C x RTP ok-SSRC seq+1 / seq+9 / marker, RTP other SSRC, RTCP, reset, signalling retarget, selected-pair} after a "
                "two-source prefix, for each probation setting, + seeded random operation sequences; non-trivial = the RTP destination moved "
                "or a latch was committed; distinct = distinct (initial remote, operation list)",
        "assumptions": [
            "IceConn socket is not an inbound TCP stream (the TCP adoption branch is not modelled)",
            "datagram source ports are non-zero (port 0 is the 'unset' sentinel)",
            "each IceConn method body is one atomic step (they run under the RwLock/Mutex/atomics of IceConn; interleavings inside one receive() are not modelled)",
        ],
        "trusted_base": ["hook H3 (cfg rustrtc_verif wrappers around the two crate-private setters)"],
    },
}
