#!/bin/bash
# coordinator: re-run every seeded change against its property's quick check on the current /repo HEAD
# (3 at a time: one per mutcheck scratch slot); one line per seed in /tmp/seeds_final.log
cd /verif
: > /tmp/seeds_final.log
run_one() {
  d=$1; id=$(basename $d); pid=${id%%-*}
  out=$(tools/mutcheck.sh $d/patch.diff $pid quick 2>&1)
  rc=$(echo "$out" | grep -oE "mutcheck: (exit [0-9]+|patch does not apply)" | tail -1)
  line=$(echo "$out" | grep -E "^$pid quick:" | cut -c1-170)
  viol=$(echo "$out" | grep -E "^VIOLATION" | grep -c "no-failing-input-found")
  echo "$id | $rc | nfif=$viol | $line" >> /tmp/seeds_final.log
}
export -f run_one
ls -d seeded/C*-* | xargs -P 3 -I{} bash -c 'run_one {}'
echo done >> /tmp/seeds_final.log
