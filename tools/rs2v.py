#!/usr/bin/env python3
"""rs2v: translate a fixed list of items of /repo's Rust source into Gallina (coq/Gen/*.v).

Scope (deliberately small, syntactic, fails loudly):
  * integer `const` items                       -> Definition NAME : Z
  * leaf arithmetic / decision functions        -> Definition f (args : Z ...) : Z/bool/...
  * fieldless enums used by those functions     -> Inductive
  * classification ranges / literal tables found by anchored regular expressions
  * call-site census (C14)

Integer semantics: every value is a Z; every operation whose Rust result type is an integer
type T is wrapped with `cast_T` (release-profile wrapping semantics).  Debug-profile overflow
panics are the business of the hand-written panic-aware models (C07), not of this translator.

Anything outside the supported subset raises Untranslatable; the driver reports the item by
name and treats the tie as broken (never guesses).
"""
import json
import os
import re
import sys

REPO = os.environ.get("RV_REPO", "/repo")


class Untranslatable(Exception):
    pass


# ----------------------------------------------------------------------------- tokenizer
TOK_RE = re.compile(r"""
    (?P<ws>\s+|//[^\n]*|/\*.*?\*/)
  | (?P<num>0x[0-9a-fA-F_]+(?:[ui](?:8|16|32|64|128|size))?|0b[01_]+(?:[ui](?:8|16|32|64|128|size))?|[0-9][0-9_]*(?:[ui](?:8|16|32|64|128|size))?)
  | (?P<id>[A-Za-z_][A-Za-z0-9_]*)
  | (?P<str>b?"(?:[^"\\]|\\.)*")
  | (?P<op>\.\.=|<<=|>>=|::|->|=>|==|!=|<=|>=|&&|\|\||<<|>>|\.\.|\+=|-=|\*=|/=|[-+*/%&|^!<>=(){}\[\],;:.?#'])
""", re.X | re.S)


def tokenize(src):
    out = []
    pos = 0
    while pos < len(src):
        m = TOK_RE.match(src, pos)
        if not m:
            raise Untranslatable("cannot tokenize at: %r" % src[pos:pos + 30])
        pos = m.end()
        if m.lastgroup == "ws":
            continue
        out.append((m.lastgroup, m.group(m.lastgroup)))
    return out


INT_TYPES = {"u8": (8, False), "u16": (16, False), "u32": (32, False), "u64": (64, False),
             "usize": (64, False), "i8": (8, True), "i16": (16, True), "i32": (32, True),
             "i64": (64, True), "isize": (64, True), "u128": (128, False), "i128": (128, True)}


def parse_int(tok):
    m = re.match(r"^(0x[0-9a-fA-F_]+|0b[01_]+|[0-9][0-9_]*?)((?:[ui](?:8|16|32|64|128|size))?)$", tok)
    if not m:
        raise Untranslatable("bad int literal " + tok)
    body, suf = m.group(1), m.group(2)
    body = body.replace("_", "")
    if body.startswith("0x"):
        v = int(body, 16)
    elif body.startswith("0b"):
        v = int(body[2:], 2)
    else:
        v = int(body)
    return v, (suf or None)


# ----------------------------------------------------------------------------- AST + parser
class P:
    """Pratt parser for the expression/statement subset."""

    def __init__(self, toks):
        self.t = toks
        self.i = 0

    def peek(self, k=0):
        return self.t[self.i + k] if self.i + k < len(self.t) else ("eof", "")

    def next(self):
        tok = self.peek()
        self.i += 1
        return tok

    def accept(self, val):
        if self.peek()[1] == val:
            self.i += 1
            return True
        return False

    def expect(self, val):
        if not self.accept(val):
            raise Untranslatable("expected %r, got %r (at token %d)" % (val, self.peek()[1], self.i))

    # type syntax: ident, Option<T>, (T, T), &T
    def parse_type(self):
        if self.accept("&"):
            self.accept("mut")
            return self.parse_type()
        if self.accept("("):
            items = []
            while not self.accept(")"):
                items.append(self.parse_type())
                self.accept(",")
            return ("tuple", items)
        kind, name = self.next()
        if kind != "id":
            raise Untranslatable("type expected, got " + name)
        while self.accept("::"):
            name = self.next()[1]
        if self.accept("<"):
            args = []
            while not self.accept(">"):
                args.append(self.parse_type())
                self.accept(",")
            return (name, args)
        return name

    BINPREC = {"||": 1, "&&": 2, "==": 3, "!=": 3, "<": 3, ">": 3, "<=": 3, ">=": 3,
               "|": 4, "^": 5, "&": 6, "<<": 7, ">>": 7, "+": 8, "-": 8, "*": 9, "/": 9, "%": 9}

    def parse_expr(self, minprec=0, nostruct=False):
        lhs = self.parse_unary(nostruct)
        while True:
            kind, op = self.peek()
            if op == "as":
                if 10 < minprec:
                    break
                self.next()
                ty = self.parse_type()
                lhs = ("cast", lhs, ty)
                continue
            if op in self.BINPREC and kind == "op":
                prec = self.BINPREC[op]
                if prec < minprec:
                    break
                self.next()
                rhs = self.parse_expr(prec + 1, nostruct)
                lhs = ("bin", op, lhs, rhs)
                continue
            break
        return lhs

    def parse_unary(self, nostruct):
        kind, v = self.peek()
        if v == "-":
            self.next()
            return ("neg", self.parse_unary(nostruct))
        if v == "!":
            self.next()
            return ("not", self.parse_unary(nostruct))
        if v == "&" or v == "*":
            self.next()
            self.accept("mut")
            return self.parse_unary(nostruct)
        return self.parse_postfix(self.parse_atom(nostruct))

    def parse_postfix(self, e):
        while True:
            if self.accept("."):
                kind, name = self.next()
                if kind == "num":
                    e = ("tupidx", e, int(name))
                    continue
                if self.peek()[1] == "(":
                    self.next()
                    args = []
                    while not self.accept(")"):
                        args.append(self.parse_expr())
                        self.accept(",")
                    e = ("mcall", e, name, args)
                else:
                    e = ("field", e, name)
                continue
            if self.accept("?"):
                raise Untranslatable("? operator")
            break
        return e

    def parse_atom(self, nostruct):
        kind, v = self.next()
        if kind == "num":
            val, suf = parse_int(v)
            return ("int", val, suf)
        if v == "(":
            items = []
            trailing = False
            while not self.accept(")"):
                items.append(self.parse_expr())
                trailing = self.accept(",")
            if len(items) == 1 and not trailing:
                return ("paren", items[0])
            return ("tuple", items)
        if v == "if":
            return self.parse_if()
        if v == "match":
            return self.parse_match()
        if v == "{":
            self.i -= 1
            return self.parse_block()
        if v == "true":
            return ("bool", True)
        if v == "false":
            return ("bool", False)
        if v == "return":
            if self.peek()[1] in (";", "}"):
                return ("return", None)
            return ("return", self.parse_expr())
        if kind == "id":
            path = [v]
            while self.peek()[1] == "::":
                self.next()
                path.append(self.next()[1])
            if self.peek()[1] == "(":
                self.next()
                args = []
                while not self.accept(")"):
                    args.append(self.parse_expr())
                    self.accept(",")
                return ("call", path, args)
            if len(path) == 1:
                return ("var", v)
            return ("path", path)
        raise Untranslatable("unexpected token %r" % v)

    def parse_if(self):
        if self.peek()[1] == "let":
            raise Untranslatable("if let")
        c = self.parse_expr(nostruct=True)
        th = self.parse_block()
        if self.accept("else"):
            if self.peek()[1] == "if":
                self.next()
                el = self.parse_if()
            else:
                el = self.parse_block()
        else:
            el = None
        return ("if", c, th, el)

    def parse_pattern(self):
        alts = [self.parse_pattern1()]
        while self.accept("|"):
            alts.append(self.parse_pattern1())
        return alts[0] if len(alts) == 1 else ("por", alts)

    def parse_pattern1(self):
        kind, v = self.next()
        if v == "_":
            return ("pwild",)
        if v == "(":
            items = []
            while not self.accept(")"):
                items.append(self.parse_pattern())
                self.accept(",")
            return ("ptuple", items)
        if kind == "num":
            val, _ = parse_int(v)
            if self.peek()[1] in ("..=", ".."):
                incl = self.next()[1] == "..="
                hi, _ = parse_int(self.next()[1])
                return ("prange", val, hi if incl else hi - 1)
            return ("pint", val)
        if v in ("true", "false"):
            return ("pbool", v == "true")
        if kind == "id":
            path = [v]
            while self.peek()[1] == "::":
                self.next()
                path.append(self.next()[1])
            if self.peek()[1] == "(":
                self.next()
                args = []
                while not self.accept(")"):
                    args.append(self.parse_pattern())
                    self.accept(",")
                return ("pctor", path, args)
            if len(path) == 1 and (v[0].islower() or v == "_"):
                return ("pvar", v)
            return ("pctor", path, [])
        raise Untranslatable("pattern: unexpected %r" % v)

    def parse_match(self):
        scrut = self.parse_expr(nostruct=True)
        self.expect("{")
        arms = []
        while not self.accept("}"):
            pat = self.parse_pattern()
            if self.peek()[1] == "if":
                raise Untranslatable("match guard")
            self.expect("=>")
            body = self.parse_expr()
            self.accept(",")
            arms.append((pat, body))
        return ("match", scrut, arms)

    def parse_block(self):
        self.expect("{")
        stmts = []
        while not self.accept("}"):
            if self.accept("let"):
                self.accept("mut")
                pat = self.parse_pattern()
                ty = None
                if self.accept(":"):
                    ty = self.parse_type()
                self.expect("=")
                e = self.parse_expr()
                if self.accept("else"):
                    eb = self.parse_block()
                    self.expect(";")
                    stmts.append(("letelse", pat, e, eb))
                else:
                    self.expect(";")
                    stmts.append(("let", pat, ty, e))
                continue
            e = self.parse_expr()
            if self.accept(";"):
                stmts.append(("expr", e))
            else:
                stmts.append(("tail", e))
                if self.peek()[1] != "}":
                    # `if ... {}` / `match` used as statement without `;`
                    stmts[-1] = ("expr", e)
        return ("block", stmts)


# ----------------------------------------------------------------------------- code generator
def coq_ident(s):
    return s


class Gen:
    def __init__(self, consts=None, enums=None, fns=None):
        self.consts = consts or {}   # name -> type
        self.enums = enums or {}     # enum -> [variants]
        self.fns = fns or {}         # name -> (argtypes, rettype)

    def ty_of_suffix(self, suf):
        return suf

    def cast(self, ty, s):
        if ty in INT_TYPES:
            return "(cast_%s %s)" % (ty, s)
        return s

    def unify(self, a, b):
        if a is None or a == "lit":
            return b
        if b is None or b == "lit":
            return a
        return a

    # returns (coqstring, type) ; type in INT_TYPES | 'bool' | 'lit' | ('tuple',[..]) | ('Option',[T]) | enum name
    def expr(self, e, env, want=None):
        k = e[0]
        if k == "int":
            v, suf = e[1], e[2]
            return ("(%d)" % v if v < 0 else "%d" % v), (suf or (want if want in INT_TYPES else "lit"))
        if k == "bool":
            return ("true" if e[1] else "false"), "bool"
        if k == "paren":
            s, t = self.expr(e[1], env, want)
            return "(" + s + ")", t
        if k == "var":
            name = e[1]
            if name in env:
                return env[name]
            if name in self.consts:
                return name, self.consts[name]
            raise Untranslatable("unknown variable " + name)
        if k == "path":
            path = e[1]
            if len(path) == 2 and path[0] in self.enums:
                return "%s_%s" % (path[0], path[1]), path[0]
            if len(path) == 2 and path[0] in INT_TYPES and path[1] == "MAX":
                bits, signed = INT_TYPES[path[0]]
                return str((1 << (bits - 1)) - 1 if signed else (1 << bits) - 1), path[0]
            if path[-1] in self.consts:
                return path[-1], self.consts[path[-1]]
            raise Untranslatable("unknown path " + "::".join(path))
        if k == "field":
            base = e[1]
            if base == ("var", "self"):
                key = "self." + e[2]
                if key in env:
                    return env[key]
            raise Untranslatable("field access " + str(e[2]))
        if k == "tuple":
            parts = [self.expr(x, env) for x in e[1]]
            return "(" + ", ".join(p[0] for p in parts) + ")", ("tuple", [p[1] for p in parts])
        if k == "neg":
            s, t = self.expr(e[1], env, want)
            return self.cast(t, "(- %s)" % s) if t in INT_TYPES else "(- %s)" % s, t
        if k == "not":
            s, t = self.expr(e[1], env, want)
            if t == "bool":
                return "(negb %s)" % s, "bool"
            if t in INT_TYPES and not INT_TYPES[t][1]:
                return "(%d - %s)" % ((1 << INT_TYPES[t][0]) - 1, s), t
            raise Untranslatable("! on " + str(t))
        if k == "cast":
            s, t = self.expr(e[1], env, None)
            ty = e[2]
            if ty not in INT_TYPES:
                raise Untranslatable("cast to " + str(ty))
            if t == "bool":
                s = "(Z.b2z %s)" % s
            return "(cast_%s %s)" % (ty, s), ty
        if k == "bin":
            op, a, b = e[1], e[2], e[3]
            if op in ("&&", "||"):
                sa, _ = self.expr(a, env, "bool")
                sb, _ = self.expr(b, env, "bool")
                return "(%s %s %s)" % (sa, op, sb), "bool"
            if op in ("<<", ">>"):
                sa, ta = self.expr(a, env, want)
                sb, _ = self.expr(b, env, None)
                fn = "Z.shiftl" if op == "<<" else "Z.shiftr"
                if ta == "lit":
                    ta = want if want in INT_TYPES else "lit"
                return self.cast(ta, "(%s %s %s)" % (fn, sa, sb)), ta
            sa, ta = self.expr(a, env, want if op not in ("==", "!=", "<", ">", "<=", ">=") else None)
            sb, tb = self.expr(b, env, ta if ta != "lit" else (want if op not in ("==", "!=", "<", ">", "<=", ">=") else None))
            t = self.unify(ta, tb)
            if op in ("==", "!=", "<", ">", "<=", ">="):
                if t == "bool" or (isinstance(t, str) and t in self.enums):
                    raise Untranslatable("comparison on non-integers")
                m = {"==": "Z.eqb", "<": "Z.ltb", "<=": "Z.leb", ">": "Z.gtb", ">=": "Z.geb"}
                if op == "!=":
                    return "(negb (Z.eqb %s %s))" % (sa, sb), "bool"
                return "(%s %s %s)" % (m[op], sa, sb), "bool"
            m = {"+": "Z.add", "-": "Z.sub", "*": "Z.mul", "/": "Z.quot", "%": "Z.rem",
                 "&": "Z.land", "|": "Z.lor", "^": "Z.lxor"}
            return self.cast(t, "(%s %s %s)" % (m[op], sa, sb)), t
        if k == "mcall":
            recv, name, args = e[1], e[2], e[3]
            sr, tr = self.expr(recv, env, want)
            if name in ("wrapping_add", "wrapping_sub", "wrapping_mul"):
                sb, tb = self.expr(args[0], env, tr)
                t = self.unify(tr, tb)
                fn = {"wrapping_add": "Z.add", "wrapping_sub": "Z.sub", "wrapping_mul": "Z.mul"}[name]
                return self.cast(t, "(%s %s %s)" % (fn, sr, sb)), t
            if name in ("saturating_add", "saturating_sub"):
                sb, tb = self.expr(args[0], env, tr)
                t = self.unify(tr, tb)
                if t not in INT_TYPES:
                    raise Untranslatable("saturating on untyped")
                fn = "Z.add" if name == "saturating_add" else "Z.sub"
                return "(sat_%s (%s %s %s))" % (t, fn, sr, sb), t
            if name in ("min", "max"):
                sb, tb = self.expr(args[0], env, tr)
                t = self.unify(tr, tb)
                return "(Z.%s %s %s)" % (name, sr, sb), t
            if name == "clamp":
                lo, _ = self.expr(args[0], env, tr)
                hi, _ = self.expr(args[1], env, tr)
                return "(Z.min (Z.max %s %s) %s)" % (sr, lo, hi), tr
            if name == "is_none" and isinstance(tr, tuple) and tr[0] == "Option":
                return "(match %s with None => true | Some _ => false end)" % sr, "bool"
            if name == "is_some" and isinstance(tr, tuple) and tr[0] == "Option":
                return "(match %s with None => false | Some _ => true end)" % sr, "bool"
            if name == "contains" and recv[0] == "paren" and False:
                pass
            if name in ("clone", "into", "to_owned"):
                return sr, tr
            raise Untranslatable("method ." + name)
        if k == "call":
            path, args = e[1], e[2]
            if path[-1] in ("min", "max") and path[0] in ("std", "core", "cmp"):
                sa, ta = self.expr(args[0], env, want)
                sb, tb = self.expr(args[1], env, ta)
                return "(Z.%s %s %s)" % (path[-1], sa, sb), self.unify(ta, tb)
            if path == ["Some"]:
                sa, ta = self.expr(args[0], env, None)
                return "(Some %s)" % sa, ("Option", [ta])
            fname = path[-1]
            if fname in self.fns:
                argtys, ret = self.fns[fname]
                ss = [self.expr(a, env, t)[0] for a, t in zip(args, argtys)]
                return "(%s %s)" % (fname, " ".join(ss)), ret
            raise Untranslatable("call " + "::".join(path))
        if k == "if":
            sc, _ = self.expr(e[1], env, "bool")
            st, tt = self.block(e[2], env, want)
            if e[3] is None:
                raise Untranslatable("if without else in value position")
            if e[3][0] == "if":
                se, te = self.expr(e[3], env, want if tt == "lit" else tt)
            else:
                se, te = self.block(e[3], env, want if tt == "lit" else tt)
            return "(if %s then %s else %s)" % (sc, st, se), self.unify(tt, te)
        if k == "match":
            return self.match(e, env, want)
        if k == "block":
            return self.block(e, env, want)
        if k == "return":
            raise Untranslatable("return in expression position")
        raise Untranslatable("expression kind " + k)

    def pattern(self, pat, ty, env):
        """returns coq pattern string; extends env"""
        k = pat[0]
        if k == "pwild":
            return "_"
        if k == "pvar":
            env[pat[1]] = (pat[1], ty)
            return pat[1]
        if k == "ptuple":
            tys = ty[1] if isinstance(ty, tuple) and ty[0] == "tuple" else [None] * len(pat[1])
            return "(" + ", ".join(self.pattern(p, t, env) for p, t in zip(pat[1], tys)) + ")"
        if k == "pctor":
            path, args = pat[1], pat[2]
            if path == ["Some"]:
                inner = ty[1][0] if isinstance(ty, tuple) and ty[0] == "Option" else None
                return "(Some %s)" % self.pattern(args[0], inner, env)
            if path == ["None"]:
                return "None"
            if len(path) == 2 and path[0] in self.enums:
                if args:
                    raise Untranslatable("enum payload pattern")
                return "%s_%s" % (path[0], path[1])
            raise Untranslatable("pattern ctor " + "::".join(path))
        if k == "pbool":
            return "true" if pat[1] else "false"
        raise Untranslatable("pattern kind " + k)

    def match(self, e, env, want):
        scrut, arms = e[1], e[2]
        ss, ts = self.expr(scrut, env, None)
        # integer-literal matches become if-chains
        intlike = all(a[0][0] in ("pint", "prange", "pwild", "por", "pvar") for a in arms) and (ts in INT_TYPES or ts == "lit")
        if intlike:
            out = None
            rtype = None
            default = None
            chain = []
            for pat, body in arms:
                env2 = dict(env)
                if pat[0] in ("pwild", "pvar"):
                    if pat[0] == "pvar":
                        env2[pat[1]] = (ss, ts)
                    sb, tb = self.expr(body, env2, want)
                    default = sb
                    rtype = self.unify(rtype, tb)
                    break
                alts = pat[1] if pat[0] == "por" else [pat]
                conds = []
                for a in alts:
                    if a[0] == "pint":
                        conds.append("(Z.eqb %s %d)" % (ss, a[1]))
                    elif a[0] == "prange":
                        conds.append("((Z.leb %d %s) && (Z.leb %s %d))" % (a[1], ss, ss, a[2]))
                    else:
                        raise Untranslatable("int match pattern")
                sb, tb = self.expr(body, env2, want)
                rtype = self.unify(rtype, tb)
                chain.append(("(" + " || ".join(conds) + ")", sb))
            if default is None:
                raise Untranslatable("int match without default arm")
            out = default
            for c, sb in reversed(chain):
                out = "(if %s then %s else %s)" % (c, sb, out)
            return out, rtype
        parts = []
        rtype = None
        for pat, body in arms:
            env2 = dict(env)
            alts = pat[1] if pat[0] == "por" else [pat]
            ps = " | ".join(self.pattern(a, ts, env2) for a in alts)
            sb, tb = self.expr(body, env2, want if rtype in (None, "lit") else rtype)
            rtype = self.unify(rtype, tb)
            parts.append("| %s => %s" % (ps, sb))
        return "(match %s with %s end)" % (ss, " ".join(parts)), rtype

    def block(self, b, env, want):
        stmts = b[1]
        return self.stmts(stmts, dict(env), want)

    def stmts(self, stmts, env, want):
        if not stmts:
            raise Untranslatable("empty block in value position")
        s = stmts[0]
        rest = stmts[1:]
        if s[0] == "let":
            pat, ty, e = s[1], s[2], s[3]
            se, te = self.expr(e, env, ty if isinstance(ty, str) else None)
            if isinstance(ty, str) and ty in INT_TYPES and te == "lit":
                te = ty
            env2 = dict(env)
            if pat[0] == "pvar":
                # shadowing-safe fresh name
                base = pat[1]
                n = base
                cnt = 0
                used = {v[0] for v in env.values()}
                while n in used or n in self.consts:
                    cnt += 1
                    n = "%s_%d" % (base, cnt)
                env2[base] = (n, te)
                sr, tr = self.stmts(rest, env2, want)
                return "(let %s := %s in %s)" % (n, se, sr), tr
            ps = self.pattern(pat, te, env2)
            sr, tr = self.stmts(rest, env2, want)
            return "(let '%s := %s in %s)" % (ps, se, sr), tr
        if s[0] == "letelse":
            pat, e, eb = s[1], s[2], s[3]
            se, te = self.expr(e, env, None)
            env2 = dict(env)
            ps = self.pattern(pat, te, env2)
            # else block must be `return X;`
            es = eb[1]
            if len(es) != 1 or es[0][1][0] != "return":
                raise Untranslatable("let-else without plain return")
            sret, tret = self.expr(es[0][1][1], env, want)
            sr, tr = self.stmts(rest, env2, want)
            return "(match %s with %s => %s | _ => %s end)" % (se, ps, sr, sret), self.unify(tr, tret)
        if s[0] == "tail":
            if rest:
                raise Untranslatable("tail expression followed by statements")
            return self.expr(s[1], env, want)
        if s[0] == "expr":
            e = s[1]
            if e[0] == "return" and not rest:
                return self.expr(e[1], env, want)
            if e[0] == "if" and e[3] is None:
                # `if c { return X; }` early return
                th = e[2][1]
                if len(th) == 1 and th[0][1][0] == "return":
                    sc, _ = self.expr(e[1], env, "bool")
                    sret, tret = self.expr(th[0][1][1], env, want)
                    sr, tr = self.stmts(rest, env, want)
                    return "(if %s then %s else %s)" % (sc, sret, sr), self.unify(tr, tret)
            raise Untranslatable("statement kind not supported: " + e[0])
        raise Untranslatable("stmt " + s[0])


# ----------------------------------------------------------------------------- item extraction
def read(path):
    with open(os.path.join(REPO, path)) as f:
        return f.read()


def strip_comments(src):
    src = re.sub(r"/\*.*?\*/", "", src, flags=re.S)
    src = re.sub(r"//[^\n]*", "", src)
    return src


def find_const(src, name):
    m = re.search(r"(?m)^\s*(?:pub(?:\([a-z]+\))?\s+)?const\s+%s\s*:\s*([A-Za-z0-9_]+)\s*=\s*([^;]+);" % re.escape(name), src)
    if not m:
        raise Untranslatable("const %s not found" % name)
    return m.group(1), m.group(2)


def balanced(src, start):
    """src[start] == '{' ; return index after matching '}' (string/char aware enough for our items)"""
    depth = 0
    i = start
    n = len(src)
    while i < n:
        c = src[i]
        if c == '"':
            i += 1
            while i < n and src[i] != '"':
                i += 2 if src[i] == "\\" else 1
        elif c == "{":
            depth += 1
        elif c == "}":
            depth -= 1
            if depth == 0:
                return i + 1
        i += 1
    raise Untranslatable("unbalanced braces")


def find_fn(src, name, impl=None):
    """returns (params_src, ret_src, body_src)"""
    scope = src
    if impl:
        m = re.search(r"(?m)^impl(?:<[^>]*>)?\s+%s\s*\{" % re.escape(impl), src)
        if not m:
            raise Untranslatable("impl %s not found" % impl)
        end = balanced(src, m.end() - 1)
        scope = src[m.end():end]
    m = re.search(r"fn\s+%s\s*(?:<[^>]*>)?\s*\(([^)]*)\)\s*(?:->\s*([^{]+?))?\s*\{" % re.escape(name), scope)
    if not m:
        raise Untranslatable("fn %s not found" % name)
    end = balanced(scope, m.end() - 1)
    return m.group(1), (m.group(2) or "()").strip(), scope[m.end() - 1:end]


def find_enum(src, name):
    m = re.search(r"enum\s+%s\s*\{([^}]*)\}" % re.escape(name), src)
    if not m:
        raise Untranslatable("enum %s not found" % name)
    body = re.sub(r"#\[[^\]]*\]", "", m.group(1))
    vs = []
    for part in body.split(","):
        part = part.strip()
        if not part:
            continue
        mm = re.match(r"^([A-Za-z0-9_]+)\s*(?:=\s*([0-9xa-fA-F_]+))?$", part)
        if not mm:
            raise Untranslatable("enum %s has non-unit variant %r" % (name, part))
        vs.append((mm.group(1), mm.group(2)))
    return vs


def find_struct_fields(src, name):
    m = re.search(r"struct\s+%s\s*\{" % re.escape(name), src)
    if not m:
        raise Untranslatable("struct %s not found" % name)
    end = balanced(src, m.end() - 1)
    body = re.sub(r"#\[[^\]]*\]", "", src[m.end():end - 1])
    fields = {}
    for mm in re.finditer(r"(?:pub(?:\([a-z]+\))?\s+)?([a-z_][A-Za-z0-9_]*)\s*:\s*([^,\n]+)", body):
        fields[mm.group(1)] = mm.group(2).strip()
    return fields


def coq_type(t, enums):
    if isinstance(t, str):
        if t in INT_TYPES or t == "lit":
            return "Z"
        if t == "bool":
            return "bool"
        if t in enums:
            return t
    if isinstance(t, tuple):
        if t[0] == "Option":
            return "(option %s)" % coq_type(t[1][0], enums)
        if t[0] == "tuple":
            return "(" + " * ".join(coq_type(x, enums) for x in t[1]) + ")"
    raise Untranslatable("type %r" % (t,))


def parse_type_src(s):
    p = P(tokenize(s))
    t = p.parse_type()
    return t


HEADER = """(* GENERATED by tools/rs2v.py from the working tree of /repo -- do not edit. *)
From Coq Require Import ZArith Bool List.
From RV Require Import Lib.Wrap.
Import ListNotations.
Open Scope Z_scope.
Open Scope bool_scope.
"""


class Module:
    def __init__(self, name):
        self.name = name
        self.lines = [HEADER]
        self.gen = Gen()
        self.manifest = []

    def add_const(self, path, name):
        src = strip_comments(read(path))
        ty, expr = find_const(src, name)
        if ty not in INT_TYPES:
            raise Untranslatable("const %s has non-integer type %s" % (name, ty))
        ast = P(tokenize(expr)).parse_expr()
        s, _ = self.gen.expr(ast, {}, ty)
        self.gen.consts[name] = ty
        self.lines.append("Definition %s : Z := %s." % (name, s))
        self.manifest.append({"item": "const " + name, "file": path})

    def add_enum(self, path, name):
        src = strip_comments(read(path))
        vs = find_enum(src, name)
        self.gen.enums[name] = [v for v, _ in vs]
        self.lines.append("Inductive %s : Set := %s." % (name, " | ".join("%s_%s" % (name, v) for v, _ in vs)))
        self.lines.append("Definition %s_all : list %s := [%s]." % (name, name, "; ".join("%s_%s" % (name, v) for v, _ in vs)))
        self.lines.append("Definition %s_eqb (a b : %s) : bool := match a, b with %s | _, _ => false end." % (
            name, name, " ".join("| %s_%s, %s_%s => true" % (name, v, name, v) for v, _ in vs)) if len(vs) > 1 else
            "Definition %s_eqb (a b : %s) : bool := true." % (name, name))
        if all(d is not None for _, d in vs):
            self.lines.append("Definition %s_code (a : %s) : Z := match a with %s end." % (
                name, name, " ".join("| %s_%s => %d" % (name, v, parse_int(d)[0]) for v, d in vs)))
        self.manifest.append({"item": "enum " + name, "file": path})

    def add_fn(self, path, name, impl=None, self_struct=None, coq_name=None):
        src = strip_comments(read(path))
        params, ret, body = find_fn(src, name, impl)
        env = {}
        args = []
        argtys = []
        # self fields used in body become leading parameters
        if re.search(r"&?\s*(?:mut\s+)?self\b", params.split(",")[0] if params.strip() else ""):
            fields = find_struct_fields(src, self_struct or impl)
            used = []
            for m in re.finditer(r"self\.([a-z_][A-Za-z0-9_]*)", body):
                if m.group(1) not in used:
                    used.append(m.group(1))
            for f in used:
                if f not in fields:
                    raise Untranslatable("self.%s: not a field (method call on self?)" % f)
                t = parse_type_src(fields[f])
                pname = "self_" + f
                env["self." + f] = (pname, t)
                args.append("(%s : %s)" % (pname, coq_type(t, self.gen.enums)))
                argtys.append(t)
            params = ",".join(params.split(",")[1:])
        for part in [p for p in params.split(",") if p.strip()]:
            pn, pt = part.split(":", 1)
            pn = pn.strip().replace("mut ", "").strip()
            t = parse_type_src(pt.strip())
            env[pn] = (pn, t)
            args.append("(%s : %s)" % (pn, coq_type(t, self.gen.enums)))
            argtys.append(t)
        rt = parse_type_src(ret)
        ast = P(tokenize(body)).parse_block()
        s, t = self.gen.block(ast, env, rt if isinstance(rt, str) else None)
        cname = coq_name or name
        self.gen.fns[name] = (argtys, rt)
        self.lines.append("Definition %s %s : %s :=\n  %s." % (cname, " ".join(args), coq_type(rt, self.gen.enums), s))
        self.manifest.append({"item": "fn " + (impl + "::" if impl else "") + name, "file": path})

    def raw(self, text, item, path):
        self.lines.append(text)
        self.manifest.append({"item": item, "file": path})

    def text(self):
        return "\n".join(self.lines) + "\n"


# ----------------------------------------------------------------------------- the fixed item list
def gen_consts():
    m = Module("Consts")
    for n in ["SCTP_COMMON_HEADER_SIZE", "CHUNK_HEADER_SIZE", "MAX_SCTP_PACKET_SIZE", "DEFAULT_MAX_PAYLOAD_SIZE",
              "DUP_THRESH", "CWND_INITIAL", "SSTHRESH_MIN", "CWND_MIN_AFTER_RTO", "MAX_INBOUND_STREAM_PENDING",
              "MAX_DUPS_BUFFER_SIZE", "MAX_RECEIVED_QUEUE_SIZE", "RETRANSMIT_BURST", "COOKIE_HMAC_LEN",
              "COOKIE_TIMESTAMP_LEN", "COOKIE_TOTAL_LEN", "COOKIE_LIFETIME_MS",
              "CT_DATA", "CT_INIT", "CT_INIT_ACK", "CT_SACK", "CT_HEARTBEAT", "CT_HEARTBEAT_ACK", "CT_ABORT",
              "CT_SHUTDOWN", "CT_SHUTDOWN_ACK", "CT_ERROR", "CT_COOKIE_ECHO", "CT_COOKIE_ACK", "CT_RECONFIG",
              "CT_FORWARD_TSN", "RECONFIG_PARAM_OUTGOING_SSN_RESET", "RECONFIG_PARAM_INCOMING_SSN_RESET",
              "RECONFIG_PARAM_RESPONSE"]:
        m.add_const("src/transports/sctp.rs", n)
    m.add_const("src/transports/dtls/mod.rs", "MAX_APP_DATA_RECORD_SIZE")
    for n in ["DATA_CHANNEL_PPID_DCEP", "DATA_CHANNEL_PPID_STRING", "DATA_CHANNEL_PPID_BINARY", "DCEP_TYPE_OPEN", "DCEP_TYPE_ACK"]:
        m.add_const("src/transports/datachannel.rs", n)
    for n in ["RTP_VERSION", "RTCP_SR", "RTCP_RR", "RTCP_SDES", "RTCP_BYE", "RTCP_RTPFB", "RTCP_PSFB", "RTCP_XR",
              "RTCP_RTPFB_NACK", "RTCP_RTPFB_TWCC", "RTCP_PSFB_PLI", "RTCP_PSFB_FIR", "RTCP_PSFB_APP"]:
        m.add_const("src/rtp.rs", n)
    for n in ["MAGIC_COOKIE", "FINGERPRINT_XOR"]:
        m.add_const("src/transports/ice/stun.rs", n)
    for n in ["SHA1_LEN", "SSRC_CONTEXT_HIGH_WATERMARK"]:
        m.add_const("src/srtp.rs", n)
    m.add_const("src/transports/ice/mod.rs", "MAX_STUN_MESSAGE")
    m.add_const("src/peer_connection.rs", "MAX_RECEIVER_NACK_GAP")
    return m


def gen_serial():
    m = Module("Serial")
    m.add_fn("src/transports/sctp.rs", "tsn_gt")
    m.add_fn("src/transports/sctp.rs", "ssn_gt")
    return m


def gen_classify():
    """first-byte demultiplexing ranges of IceConn::receive and rtp::is_rtcp"""
    m = Module("Classify")
    path = "src/transports/ice/conn.rs"
    src = strip_comments(read(path))
    _, _, body = find_fn(src, "receive", "PacketReceiver for IceConn")
    rs = re.findall(r"\((\d+)\.\.(=?)(\d+)\)\.contains\(&(first_byte|packet\[1\])\)", body)
    fb = [(int(a), int(c) + (1 if eq else 0)) for a, eq, c, w in rs if w == "first_byte"]
    p1 = [(int(a), int(c) + (1 if eq else 0)) for a, eq, c, w in rs if w == "packet[1]"]
    if len(fb) != 2 or len(p1) != 1:
        raise Untranslatable("IceConn::receive: expected 2 first-byte ranges and 1 RTCP range, found %r %r" % (fb, p1))
    m.raw("Definition conn_is_dtls (b : Z) : bool := (Z.leb %d b) && (Z.ltb b %d)." % fb[0], "IceConn::receive DTLS range", path)
    m.raw("Definition conn_is_rtp_rtcp (b : Z) : bool := (Z.leb %d b) && (Z.ltb b %d)." % fb[1], "IceConn::receive RTP range", path)
    m.raw("Definition conn_is_rtcp_pt (b : Z) : bool := (Z.leb %d b) && (Z.ltb b %d)." % p1[0], "IceConn::receive RTCP PT range", path)
    mm = re.search(r"packet\.len\(\)\s*>=\s*(\d+)\s*&&\s*\(\d+\.\.=?\d+\)\.contains\(&packet\[1\]\)", body)
    if not mm:
        raise Untranslatable("IceConn::receive: is_rtcp length guard not found")
    m.raw("Definition conn_rtcp_min_len : Z := %s." % mm.group(1), "IceConn::receive is_rtcp length guard", path)
    mm = re.search(r"!self\.rtp_latched\.load\([^)]*\)\s*&&\s*packet\.len\(\)\s*>=\s*(\d+)", body)
    if not mm:
        raise Untranslatable("IceConn::receive: RTP min length guard not found")
    m.raw("Definition conn_rtp_min_len : Z := %s." % mm.group(1), "IceConn::receive RTP length guard", path)
    # rule thresholds
    mm = re.search(r"if\s+total\s*>=\s*(\d+)\s*\{[^}]*?consecutive_count\s*>=\s*(\d+)", body, re.S)
    if not mm:
        raise Untranslatable("IceConn::receive: rule-2 thresholds not found")
    m.raw("Definition latch_rule2_total : Z := %s.\nDefinition latch_rule2_consec : Z := %s." % (mm.group(1), mm.group(2)),
          "IceConn::receive rule 2 thresholds", path)
    return m


MODULES = {"Consts": gen_consts, "Serial": gen_serial, "Classify": gen_classify}


def load_extra():
    """per-property generator plugins: tools/gen_*.py exposing MODULES dict name -> fn(Module-class helpers)"""
    import importlib.util
    # plugins do `import rs2v`: make that the very module that is running as a script
    sys.modules.setdefault("rs2v", sys.modules[__name__])
    here = os.path.dirname(os.path.abspath(__file__))
    for fn in sorted(os.listdir(here)):
        if fn.startswith("gen_") and fn.endswith(".py"):
            spec = importlib.util.spec_from_file_location(fn[:-3], os.path.join(here, fn))
            mod = importlib.util.module_from_spec(spec)
            spec.loader.exec_module(mod)
            MODULES.update(mod.MODULES)


def main():
    out = sys.argv[1] if len(sys.argv) > 1 else os.path.join(os.path.dirname(os.path.abspath(__file__)), "..", "coq", "Gen")
    only = sys.argv[2:] or None
    load_extra()
    os.makedirs(out, exist_ok=True)
    status = {}
    rc = 0
    for name, fn in MODULES.items():
        if only and name not in only:
            continue
        path = os.path.join(out, name + ".v")
        try:
            mod = fn()
            text = mod.text()
            status[name] = {"ok": True, "items": mod.manifest}
        except Exception as e:  # Untranslatable (possibly a plugin's own class) or a plugin crash: the tie is broken, never guessed
            status[name] = {"ok": False, "error": str(e)}
            text = "(* GENERATED: translation FAILED: %s *)\nFail Definition untranslatable := 0.\nDefinition rs2v_failed : True := I I.\n" % str(e).replace("*)", "* )")
            rc = 2
        old = None
        if os.path.exists(path):
            with open(path) as f:
                old = f.read()
        if old != text:
            with open(path, "w") as f:
                f.write(text)
    with open(os.path.join(out, "status.json"), "w") as f:
        json.dump(status, f, indent=1)
    for k, v in status.items():
        if not v["ok"]:
            print("rs2v: %s: UNTRANSLATABLE: %s" % (k, v["error"]))
    return rc


if __name__ == "__main__":
    sys.exit(main())
