#!/usr/bin/env python3
"""print a markdown table of all seeded changes and what caught them (for DESIGN.md section 9)"""
import glob, json, os
rows = []
for d in sorted(glob.glob('/verif/seeded/C*-*')):
    m = json.load(open(os.path.join(d, 'meta.json')))
    c = {}
    if os.path.exists(os.path.join(d, 'confirm.json')):
        c = json.load(open(os.path.join(d, 'confirm.json')))
    res = m.get('confirmed_by_coordinator', {}).get('result', '')
    first = 'missed' if res.startswith('MISSED') else ('tie only' if 'no-failing-input-found' in res.split('After')[0] else 'concrete input')
    final = 'concrete input' if ('with concrete replay' in res or 'concrete' in res.split('After')[-1]) else first
    fin = m.get('final_head_result', {}).get('result', '')
    if fin:
        final = 'exit 0 (obsolete: masked by a later fix)' if fin.startswith('exit 0') else ('tie only' if 'no-failing-input-found' in fin else 'concrete input')
    conf = 'yes' if c and c.get('patch_applies_to_head') and 'ok' in c.get('demo_without_change', '') and '586 passed' in c.get('existing_suite_with_change', '') else ('partly' if c else 'pending')
    rows.append((os.path.basename(d), (m.get('summary') or '')[:110].replace('|', '/'), first, final, conf))
print('| seed | change (author\'s summary) | first run | after strengthening | demo + suite re-confirmed |')
print('|---|---|---|---|---|')
for r in rows:
    print('| %s | %s | %s | %s | %s |' % r)
print()
print('%d seeded changes; first run: %d concrete input, %d broken tie only, %d missed; now: %d concrete input' % (
    len(rows), sum(r[2] == 'concrete input' for r in rows), sum(r[2] == 'tie only' for r in rows), sum(r[2] == 'missed' for r in rows), sum(r[3] == 'concrete input' for r in rows)))
