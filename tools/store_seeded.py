#!/usr/bin/env python3
"""store_seeded.py PID '{"1": "result text", ...}' [patchname]: copy /tmp/mut/PID/out/change_i into /verif/seeded/PID-i"""
import json, os, shutil, sys
pid = sys.argv[1]
res = json.loads(sys.argv[2])
alt = json.loads(sys.argv[3]) if len(sys.argv) > 3 else {}
for i, text in res.items():
    src = f"/tmp/mut/{pid}/out/change_{i}"
    dst = f"/verif/seeded/{pid}-{i}"
    os.makedirs(dst, exist_ok=True)
    shutil.copy(os.path.join(src, alt.get(i, "patch.diff")), os.path.join(dst, "patch.diff"))
    if i in alt:
        shutil.copy(os.path.join(src, "patch.diff"), os.path.join(dst, "patch.original.diff"))
    shutil.copy(os.path.join(src, "demo.rs"), os.path.join(dst, "demo.rs"))
    m = json.load(open(os.path.join(src, "meta.json")))
    m["confirmed_by_coordinator"] = {"ran": f"tools/mutcheck.sh seeded/{pid}-{i}/patch.diff {pid} quick (scratch copy of /repo HEAD + patch); tools/confirm_seeded.sh (see confirm.json)",
                                     "result": text, "author": "independent sub-agent given only the property text and a scratch worktree"}
    if i in alt:
        m["note"] = "patch.diff is the author's change re-applied by hand to a later /repo HEAD (the touched lines had been changed by a fix: commit); patch.original.diff is the author's own diff"
    json.dump(m, open(os.path.join(dst, "meta.json"), "w"), indent=1)
    print("stored", dst)
