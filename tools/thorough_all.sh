#!/bin/bash
# coordinator: run every thorough tier once, sequentially, logging one line per property
cd /verif
for ID in "$@"; do
  t0=$(date +%s)
  out=$(nice -n 5 ./check $ID thorough 2>&1); rc=$?
  echo "$(date +%H:%M) $ID rc=$rc $(( $(date +%s) - t0 ))s | $(echo "$out" | grep -E "^$ID thorough" | cut -c1-200)" >> /tmp/thorough_all.log
  echo "$out" | grep -E "^VIOLATION" >> /tmp/thorough_all.log
  cp evidence/$ID.json /tmp/thorough_evidence_$ID.json
done
echo done >> /tmp/thorough_all.log
